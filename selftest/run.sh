#!/bin/bash
# Self-test of the checker: every patch under selftest/mutants/<prop>/ must make
# `govc check -property <prop>` report a VIOLATION (exit 1); every patch under
# selftest/benign/ must leave the listed properties green. Each patch is applied
# to a scratch copy of /repo outside /repo and /verif, removed afterwards.
# usage: selftest/run.sh [prop ...]   (default: all)
set -u
cd "$(dirname "$0")/.."
VERIF=$(pwd)
SCR=${TMPDIR:-/var/tmp}/gvself-$$
mkdir -p "$SCR"
trap 'rm -rf "$SCR"' EXIT
props=("$@")
if [ ${#props[@]} -eq 0 ]; then props=($(ls selftest/mutants)); fi
fail=0
run_one() { # patch prop expect(1|0)
  local patch=$1 prop=$2 expect=$3
  local d="$SCR/repo-$(basename "$patch" .patch)-$prop"
  rm -rf "$d"; mkdir -p "$d"; rsync -a --exclude .git "${SELFTEST_REPO:-/repo}/" "$d/"
  if ! (cd "$d" && patch -p1 -s < "$VERIF/$patch"); then echo "SELFTEST-ERROR: $patch does not apply"; fail=1; rm -rf "$d"; return; fi
  local out="$SCR/out-$(basename "$patch" .patch)-$prop"; mkdir -p "$out"
  GOVC_OUT_DIR="$out" "$VERIF/bin/govc" check -repo "$d" -property "$prop" > "$out/log" 2>&1
  local rc=$?
  local tag
  if [ "$expect" = 1 ]; then
    if [ $rc -eq 1 ] && grep -q "^VIOLATION property=$prop" "$out/log"; then
      tag="caught"; grep -q "no-failing-input-found" "$out/log" && tag="caught (no-failing-input-found)"
      grep "^VIOLATION" "$out/log" | grep -vq "no-failing-input-found" && tag="caught with failing input"
    else tag="MISSED"; fail=1; fi
  else
    if [ $rc -eq 0 ]; then tag="green (as expected)"; else tag="FALSE-ALARM"; fail=1; tail -3 "$out/log"; fi
  fi
  echo "selftest $prop $(basename "$patch"): $tag"
  rm -rf "$d" "$out"
}
for prop in "${props[@]}"; do
  for patch in selftest/mutants/$prop/*.patch; do [ -e "$patch" ] && run_one "$patch" "$prop" 1; done
  for patch in selftest/benign/*.patch; do
    [ -e "$patch" ] || continue
    if grep -q "^# props:.*\b$prop\b" "$patch"; then run_one "$patch" "$prop" 0; fi
  done
done
exit $fail
