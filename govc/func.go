package main

import (
	"fmt"
	"regexp"
	"go/constant"
	"go/token"
	"go/types"
	"sort"
	"strings"

	"golang.org/x/tools/go/ssa"
)

func constantString(c *ssa.Const) string { return constant.StringVal(c.Value) }

func pkgPathOf(fn *ssa.Function) string {
	f := fn
	for f.Parent() != nil {
		f = f.Parent()
	}
	if f.Pkg != nil {
		return f.Pkg.Pkg.Path()
	}
	if f.Origin() != nil && f.Origin().Pkg != nil {
		return f.Origin().Pkg.Pkg.Path()
	}
	return ""
}

// translate builds the VC of fn against contract c (c may be nil: safety only).
func (w *World) translate(fn *ssa.Function, c *Contract) (vc *VC, err error) {
	key := funcKey(fn)
	vc = newVC(key)
	if len(fn.Blocks) == 0 {
		return nil, fmt.Errorf("%s: no body", key)
	}
	t := &Tr{w: w, fn: fn, c: c, vc: vc, pkg: pkgPathOf(fn),
		vals: map[ssa.Value]Term{}, tuples: map[ssa.Value][]Term{}, addrs: map[ssa.Value]*Addr{}, clos: map[ssa.Value]*ssa.MakeClosure{},
		reach: map[*ssa.BasicBlock]string{}, out: map[*ssa.BasicBlock]*State{}, outReach: map[*ssa.BasicBlock]string{}, edgeC: map[[2]*ssa.BasicBlock]string{},
		loops: map[*ssa.BasicBlock]*loopInfo{}, backEdge: map[[2]*ssa.BasicBlock]bool{}, posts: map[int][]Cl{}, kindCount: map[string]int{},
		paramEnv: map[string]Val{}, debugVals: map[string][]ssa.Value{}, rangeIt: map[ssa.Value]*rangeState{}}
	defer func() {
		if r := recover(); r != nil {
			if ee, ok := r.(evalErr); ok {
				err = fmt.Errorf("%s: %s", key, string(ee))
				return
			}
			panic(r)
		}
	}()
	if fn.Recover != nil {
		vc.note("function has a recover block: panics recovered by defers are not modelled")
	}
	t.findLoops()
	order := t.blockOrder()
	// source-level names (DebugRef) are static information: collect them up front
	for _, b := range fn.Blocks {
		for _, in := range b.Instrs {
			if dr, ok := in.(*ssa.DebugRef); ok {
				t.debugRef(dr)
			}
		}
	}

	// entry
	t.cur = &State{h: map[string]string{}}
	t.curReach = "true"
	t.curBlock = fn.Blocks[0]
	t.next(t.cur)
	for _, g := range sortedGhosts(w.CS) {
		if g.IsVar {
			func() {
				defer func() {
					if r := recover(); r != nil {
						if _, ok := r.(evalErr); !ok {
							panic(r)
						}
						// ghost over types of a package that is not loaded in this run: unused here
					}
				}()
				s, _, _ := t.ghostSort(g)
				t.heapGet(t.cur, "G_"+g.Name, s)
			}()
		}
	}
	for _, p := range fn.Params {
		s := vc.sortOf(p.Type())
		x := Term{t.fresh("p_"+mangle(p.Name()), s), s}
		t.vals[p] = x
		t.assumeTyped(x, p.Type())
		t.paramEnv[p.Name()] = Val{T: x, Ty: p.Type()}
		vc.Params[p.Name()] = x
		if _, dup := t.paramEnv[p.Name()+"0"]; !dup {
			t.paramEnv[p.Name()+"0"] = Val{T: x, Ty: p.Type()}
		}
	}
	for _, p := range fn.FreeVars {
		s := vc.sortOf(p.Type())
		x := Term{t.fresh("fv_"+mangle(p.Name()), s), s}
		t.vals[p] = x
		t.assumeTyped(x, p.Type())
		if _, isPtr := p.Type().Underlying().(*types.Pointer); isPtr {
			t.assumeRaw(fmt.Sprintf("(not (= %s 0))", x.S))
		}
		// a free variable is a pointer to the captured variable's cell
		t.paramEnv["&"+p.Name()] = Val{T: x, Ty: p.Type()}
	}
	t.entry = t.cur.clone()
	// global invariants of this package (established by the package initialiser:
	// checked there when `func init` is under contract, assumed everywhere else)
	t.inInit = fn.Name() == "init" && fn.Synthetic != "" && fn.Parent() == nil
	for _, gi := range w.CS.GlobInvs {
		if gi.Pkg != t.pkg || t.inInit {
			continue
		}
		env := t.envAt(nil)
		s, e := env.evalClause(gi.E)
		if e != nil {
			return nil, fmt.Errorf("%s:%d: globalinv: %v", gi.File, gi.Line, e)
		}
		t.assumeCl(s, true)
		vc.Trusted["globalinv "+gi.Src] = true
	}
	t.entry = t.cur.clone()
	if c != nil {
		for i, r := range c.Requires {
			env := t.envAt(nil)
			s, e := env.evalClause(r.E)
			if e != nil {
				return nil, fmt.Errorf("%s:%d: requires#%d: %v", r.File, r.Line, i, e)
			}
			t.assumeCl(s, true)
		}
		if withCover {
			vc.Items = append(vc.Items, Item{Kind: itOblig, Text: "true", Name: "vacuity/requires", Expect: "sat", Src: "preconditions are satisfiable"})
		}
		// dry evaluation of ensures to register the heaps they mention
		t.entry = t.cur.clone()
		for i, en := range c.Ensures {
			env := t.envAt(nil)
			env.old = t.entry
			t.bindDummyResults(env)
			if _, e := env.evalClause(en.E); e != nil {
				return nil, fmt.Errorf("%s:%d: ensures#%d: %v", en.File, en.Line, i, e)
			}
		}
	}
	t.entry = t.cur.clone()

	for _, b := range order {
		t.block(b)
	}

	// aggregated postconditions
	if c != nil {
		for i, en := range c.Ensures {
			fs := t.posts[i]
			if len(fs) == 0 {
				continue
			}
			var qs, us []string
			for _, f := range fs {
				qs = append(qs, f.Q)
				us = append(us, f.U)
			}
			it := Item{Kind: itOblig, Text: mkAnd(qs...), Name: fmt.Sprintf("post#%d", i), Src: "ensures " + en.Src, Pos: fmt.Sprintf("%s:%d", shortPath(en.File), en.Line)}
			if u := mkAnd(us...); u != it.Text {
				it.AltU = u
			}
			vc.Items = append(vc.Items, it)
			vc.NOblig++
			// an established postcondition may serve as a lemma for the later ones
			// (sound: the conjunction of all of them is what is claimed)
			lemma := it.Text
			if as2 := mkAndNonEmpty(fs2A(fs)); as2 != "" {
				lemma = "(and " + it.Text + " " + as2 + ")"
			}
			as := Item{Kind: itAssume, Text: fmt.Sprintf("(assert %s)", lemma)}
			if it.AltU != "" {
				as.AltU = fmt.Sprintf("(assert %s)", it.AltU)
			}
			vc.Items = append(vc.Items, as)
		}
		_ = 0
		for i, f := range t.frameOb {
			vc.Items = append(vc.Items, Item{Kind: itOblig, Text: f, Name: fmt.Sprintf("frame#%d", i), Src: "modifies clause respected"})
			vc.NOblig++
		}
	}
	if err := t.emitRelevantAxioms(); err != nil {
		return nil, err
	}
	return vc, nil
}

var gfTok = regexp.MustCompile(`gf_[A-Za-z0-9_]+`)

// emitRelevantAxioms adds the declared axioms that talk about ghost functions
// this VC actually uses (closed under the symbols the added axioms introduce).
// Irrelevant axioms only slow the solvers down (and can cause matching loops).
func (t *Tr) emitRelevantAxioms() error {
	used := map[string]bool{}
	scan := func(s string) {
		for _, m := range gfTok.FindAllString(s, -1) {
			used[m] = true
		}
	}
	for _, it := range t.vc.Items {
		scan(it.Text)
		scan(it.AltU)
	}
	for _, d := range t.vc.FunDecl {
		scan(d)
	}
	type ax struct {
		text  string
		syms  []string
		src   string
		decls []string // declarations (string constants, ghost functions) this axiom's text needs
		seen  []string // their funSeen keys
		strs  []string // string constants it introduced
	}
	var all []ax
	for _, a := range t.w.CS.Axioms {
		env := &Env{t: t, vars: map[string]Val{}, pkg: a.Pkg, pure: true}
		before := len(t.vc.FunDecl)
		seenBefore := map[string]bool{}
		for k := range t.vc.funSeen {
			seenBefore[k] = true
		}
		strsBefore := map[string]bool{}
		for k := range t.vc.strs {
			strsBefore[k] = true
		}
		s, e := env.evalBool(a.E)
		var x ax
		// whatever the evaluation declared is taken back; it is re-added only
		// if the axiom is selected (keeps unrelated constants out of the query)
		x.decls = append(x.decls, t.vc.FunDecl[before:]...)
		t.vc.FunDecl = t.vc.FunDecl[:before]
		for k := range t.vc.funSeen {
			if !seenBefore[k] {
				x.seen = append(x.seen, k)
				delete(t.vc.funSeen, k)
			}
		}
		for k := range t.vc.strs {
			if !strsBefore[k] {
				x.strs = append(x.strs, k)
				delete(t.vc.strs, k)
			}
		}
		if e != nil {
			if strings.Contains(e.Error(), "unknown type") {
				continue // axiom over a package that is not loaded in this run
			}
			return fmt.Errorf("%s:%d: axiom: %v", a.File, a.Line, e)
		}
		x.text, x.syms, x.src = "(assert "+s+")", gfTok.FindAllString(s, -1), a.Src
		all = append(all, x)
	}
	added := map[int]bool{}
	for changed := true; changed; {
		changed = false
		for i, a := range all {
			if added[i] {
				continue
			}
			rel := false
			for _, sy := range a.syms {
				if used[sy] {
					rel = true
				}
			}
			if !rel {
				continue
			}
			added[i] = true
			changed = true
			for _, k := range a.seen {
				t.vc.funSeen[k] = true
			}
			for _, d := range a.decls {
				dup := false
				for _, o := range t.vc.FunDecl {
					if o == d {
						dup = true
					}
				}
				if !dup {
					t.vc.FunDecl = append(t.vc.FunDecl, d)
				}
			}
			// (ids of string constants are a hash of the text: re-registering gives the id the axiom text uses)
			for _, k := range a.strs {
				t.vc.strConst(k)
			}
			t.vc.FunDecl = append(t.vc.FunDecl, a.text)
			t.vc.Trusted["axiom "+a.src] = true
			for _, sy := range a.syms {
				used[sy] = true
			}
		}
	}
	return nil
}

func sortedGhosts(cs *Contracts) []*GhostDecl {
	var names []string
	for n := range cs.Ghosts {
		names = append(names, n)
	}
	sort.Strings(names)
	var out []*GhostDecl
	for _, n := range names {
		out = append(out, cs.Ghosts[n])
	}
	return out
}

// resultAliases returns, per result position, the names a contract may use.
// Named results keep their names; unnamed ones are result / result<i>, the
// trailing error is also `err`, and in (T, error) the first is also `result`.
func resultAliases(sig *types.Signature) [][]string {
	n := sig.Results().Len()
	out := make([][]string, n)
	for i := 0; i < n; i++ {
		nm := sig.Results().At(i).Name()
		if nm != "" && nm != "_" {
			out[i] = []string{nm}
			if n == 1 {
				out[i] = append(out[i], "result")
			}
			continue
		}
		out[i] = []string{fmt.Sprintf("result%d", i)}
		if n == 1 {
			out[i] = append(out[i], "result")
		}
		if i == n-1 && n >= 1 && types.TypeString(sig.Results().At(i).Type(), nil) == "error" {
			out[i] = append(out[i], "err")
			if n == 2 {
				out[0] = append(out[0], "result")
			}
		}
	}
	return out
}

func (t *Tr) bindDummyResults(env *Env) {
	sig := t.fn.Signature
	for i, names := range resultAliases(sig) {
		ty := sig.Results().At(i).Type()
		s := t.vc.sortOf(ty)
		v := Val{T: Term{t.fresh("dummy", s), s}, Ty: ty}
		for k, n := range names {
			if _, isParam := t.paramEnv[n]; isParam && k > 0 {
				continue
			}
			env.vars[n] = v
		}
	}
}

// envAt builds the evaluation environment at block b (nil = entry).
func (t *Tr) envAt(b *ssa.BasicBlock) *Env {
	env := &Env{t: t, vars: map[string]Val{}, cur: t.cur, old: t.entry, pkg: t.pkg}
	for k, v := range t.paramEnv {
		if strings.HasPrefix(k, "&") {
			continue
		}
		env.vars[k] = v
	}
	// captured variables: name -> current content of the cell
	for _, fv := range t.fn.FreeVars {
		pt, ok := fv.Type().Underlying().(*types.Pointer)
		if !ok {
			continue
		}
		a := t.addrOfTerm(t.vals[fv].S, pt.Elem())
		if a.Kind == aStruct || a.Kind == aArray {
			env.vars[fv.Name()] = Val{Ty: pt.Elem(), Loc: a}
		} else {
			env.vars[fv.Name()] = Val{Ty: pt.Elem(), Cell: a}
		}
	}
	if b != nil {
		t.bindLocals(env, b)
	}
	return env
}

// bindLocals binds source-level variable names visible at block b using
// DebugRef information: the most recent dominating definition wins.
func (t *Tr) bindLocals(env *Env, b *ssa.BasicBlock) {
	for name, vs := range t.debugVals {
		if _, ok := env.vars[name]; ok {
			if _, isParam := t.paramEnv[name]; !isParam {
				continue
			}
		}
		var best ssa.Value
		for _, v := range vs {
			vb := valueBlock(v)
			if vb == nil {
				best = v
				continue
			}
			if _, done := t.out[vb]; !done && vb != b {
				continue
			}
			if vb == b || vb.Dominates(b) {
				best = v
			}
		}
		if best == nil {
			continue
		}
		if al, ok := best.(*ssa.Alloc); ok {
			// address-taken variable: current content of its cell
			a := t.addrOf(al)
			elem := al.Type().Underlying().(*types.Pointer).Elem()
			if a.Kind == aStruct || a.Kind == aArray {
				env.vars[name] = Val{Ty: elem, Loc: a}
			} else {
				env.vars[name] = Val{Ty: elem, Cell: a}
			}
			continue
		}
		if x, ok := t.vals[best]; ok {
			env.vars[name] = Val{T: x, Ty: best.Type()}
		}
	}
}

func valueBlock(v ssa.Value) *ssa.BasicBlock {
	if i, ok := v.(ssa.Instruction); ok {
		return i.Block()
	}
	return nil
}

// ---- CFG ----

func (t *Tr) findLoops() {
	fn := t.fn
	var headers []*ssa.BasicBlock
	for _, b := range fn.Blocks {
		for _, s := range b.Succs {
			if s.Dominates(b) {
				t.backEdge[[2]*ssa.BasicBlock{b, s}] = true
				if t.loops[s] == nil {
					t.loops[s] = &loopInfo{header: s, blocks: map[*ssa.BasicBlock]bool{s: true}}
					headers = append(headers, s)
				}
				// natural loop: nodes that reach b without passing s
				li := t.loops[s]
				var stack []*ssa.BasicBlock
				if !li.blocks[b] {
					li.blocks[b] = true
					stack = append(stack, b)
				}
				for len(stack) > 0 {
					n := stack[len(stack)-1]
					stack = stack[:len(stack)-1]
					for _, p := range n.Preds {
						if !li.blocks[p] {
							li.blocks[p] = true
							stack = append(stack, p)
						}
					}
				}
			}
		}
	}
	// source order: position of the loop statement. go/ssa creates the body
	// block of a loop right after the code preceding it, so the smallest block
	// index inside the loop orders loops as in the source.
	minIdx := func(li *loopInfo) int {
		m := 1 << 30
		for b := range li.blocks {
			if b.Index < m {
				m = b.Index
			}
		}
		return m
	}
	sort.Slice(headers, func(i, j int) bool {
		a, b := minIdx(t.loops[headers[i]]), minIdx(t.loops[headers[j]])
		if a != b {
			return a < b
		}
		return len(t.loops[headers[i]].blocks) > len(t.loops[headers[j]].blocks)
	})
	for i, h := range headers {
		li := t.loops[h]
		li.ord = i
		if t.c != nil {
			li.lc = t.c.Loops[i]
		}
	}
	if t.c != nil {
		for n := range t.c.Loops {
			if n >= len(headers) {
				t.vc.Items = append(t.vc.Items, Item{Kind: itOblig, Text: "false", Name: fmt.Sprintf("loop%d/exists", n), Src: "contract names a loop that does not exist"})
				t.vc.NOblig++
			}
		}
	}
}

func (t *Tr) blockOrder() []*ssa.BasicBlock {
	seen := map[*ssa.BasicBlock]bool{}
	var post []*ssa.BasicBlock
	var dfs func(b *ssa.BasicBlock)
	dfs = func(b *ssa.BasicBlock) {
		seen[b] = true
		for i := len(b.Succs) - 1; i >= 0; i-- {
			s := b.Succs[i]
			if t.backEdge[[2]*ssa.BasicBlock{b, s}] || seen[s] {
				continue
			}
			dfs(s)
		}
		post = append(post, b)
	}
	dfs(t.fn.Blocks[0])
	for i, j := 0, len(post)-1; i < j; i, j = i+1, j-1 {
		post[i], post[j] = post[j], post[i]
	}
	return post
}

func (t *Tr) edgeCond(p, b *ssa.BasicBlock) string {
	if c, ok := t.edgeC[[2]*ssa.BasicBlock{p, b}]; ok {
		return c
	}
	return t.outReach[p]
}

// block translates one basic block.
func (t *Tr) block(b *ssa.BasicBlock) {
	t.curBlock = b
	li := t.loops[b]
	// incoming (non-back) edges
	var preds []*ssa.BasicBlock
	var predIdx []int
	for i, p := range b.Preds {
		if t.backEdge[[2]*ssa.BasicBlock{p, b}] {
			continue
		}
		if _, ok := t.out[p]; !ok {
			continue
		}
		preds = append(preds, p)
		predIdx = append(predIdx, i)
	}
	if b != t.fn.Blocks[0] {
		if len(preds) == 0 {
			return // unreachable
		}
		var conds []string
		for _, p := range preds {
			conds = append(conds, t.edgeCond(p, b))
		}
		t.curReach = t.define(fmt.Sprintf("reach_b%d", b.Index), SBool_, mkOr(conds...))
		t.reach[b] = t.curReach
		t.cur = t.mergeStates(preds, conds)
		// phis
		for _, in := range b.Instrs {
			phi, ok := in.(*ssa.Phi)
			if !ok {
				break
			}
			s := t.vc.sortOf(phi.Type())
			term := ""
			for k := len(preds) - 1; k >= 0; k-- {
				v := t.val(phi.Edges[predIdx[k]])
				if v.Sort != s {
					v = t.vc.zeroOf(phi.Type())
				}
				if term == "" {
					term = v.S
				} else if term != v.S {
					term = fmt.Sprintf("(ite %s %s %s)", conds[k], v.S, term)
				}
			}
			t.vals[phi] = Term{t.define("phi_"+mangle(phi.Comment), s, term), s}
		}
	}
	if b == t.fn.Blocks[0] {
		t.reach[b] = "true"
	}
	if li != nil {
		t.loopHeader(li)
	}
	for _, in := range b.Instrs {
		if _, ok := in.(*ssa.Phi); ok {
			continue
		}
		t.instr(in)
	}
	t.out[b] = t.cur
	if _, ok := t.outReach[b]; !ok {
		t.outReach[b] = t.curReach
	}
	// back edges leaving this block
	for _, s := range b.Succs {
		if t.backEdge[[2]*ssa.BasicBlock{b, s}] {
			t.loopBack(t.loops[s], b)
		}
	}
}

func (t *Tr) mergeStates(preds []*ssa.BasicBlock, conds []string) *State {
	if len(preds) == 1 {
		return t.out[preds[0]].clone()
	}
	sameGen := true
	for _, p := range preds[1:] {
		if t.out[p].gen != t.out[preds[0]].gen {
			sameGen = false
		}
	}
	names := map[string]bool{}
	if sameGen {
		for _, p := range preds {
			for n := range t.out[p].h {
				names[n] = true
			}
		}
	} else {
		for n := range t.vc.heapSort {
			names[n] = true
		}
	}
	var ns []string
	for n := range names {
		ns = append(ns, n)
	}
	sort.Strings(ns)
	st := &State{h: map[string]string{}, gen: t.out[preds[0]].gen}
	if !sameGen {
		t.genCount++
		st.gen = t.genCount
	}
	for _, n := range ns {
		s := t.vc.heapSort[n]
		term := ""
		for k := len(preds) - 1; k >= 0; k-- {
			v := t.heapGet(t.out[preds[k]], n, s)
			if term == "" {
				term = v
			} else if term != v {
				term = fmt.Sprintf("(ite %s %s %s)", conds[k], v, term)
			}
		}
		if sameGen && !strings.Contains(term, " ") && term == fmt.Sprintf("%s_g%d", n, st.gen) {
			continue
		}
		st.h[n] = t.define(n, s, term)
	}
	return st
}

// ---- loops ----

func (t *Tr) loopEnv(li *loopInfo, phiVals map[*ssa.Phi]Term, at *ssa.BasicBlock) *Env {
	env := t.envAt(at)
	for _, in := range li.header.Instrs {
		if nx, ok := in.(*ssa.Next); ok {
			if rs := t.rangeIt[nx.Iter]; rs != nil && rs.isMap {
				env.visitedHeap = rs.heap
			}
		}
	}
	for _, in := range li.header.Instrs {
		phi, ok := in.(*ssa.Phi)
		if !ok {
			break
		}
		if phi.Comment != "" {
			if v, ok := phiVals[phi]; ok {
				env.vars[phi.Comment] = Val{T: v, Ty: phi.Type()}
			}
		}
	}
	// `for ... := range xs` over a slice: `rangeover` names xs (it is evaluated once,
	// before the loop, and often has no name in the source)
	for _, in := range li.header.Instrs {
		phi, ok := in.(*ssa.Phi)
		if !ok || phi.Comment != "rangeindex" {
			continue
		}
		if n := rangeLen(phi); n != nil {
			if call, ok := n.(*ssa.Call); ok {
				if b, ok := call.Call.Value.(*ssa.Builtin); ok && b.Name() == "len" && len(call.Call.Args) == 1 {
					x := call.Call.Args[0]
					if _, isSlice := x.Type().Underlying().(*types.Slice); isSlice {
						if xv, ok := t.vals[x]; ok {
							env.vars["rangeover"] = Val{T: xv, Ty: x.Type()}
						}
					}
				}
			}
		}
	}
	// `for i := range xs`: the key variable is the hidden index + 1, computed in the header
	for _, in := range li.header.Instrs {
		bo, ok := in.(*ssa.BinOp)
		if !ok || bo.Op != token.ADD {
			continue
		}
		phi, ok := bo.X.(*ssa.Phi)
		if !ok || phi.Comment != "rangeindex" {
			continue
		}
		pv, ok := phiVals[phi]
		if !ok {
			continue
		}
		for name, vs := range t.debugVals {
			for _, v := range vs {
				if v == ssa.Value(bo) {
					env.vars[name] = Val{T: Term{foldArith("+", pv.S, "1"), SInt_}, Ty: bo.Type()}
				}
			}
		}
	}
	return env
}

func (t *Tr) loopHeader(li *loopInfo) {
	h := li.header
	entryPhis := map[*ssa.Phi]Term{}
	var phis []*ssa.Phi
	for _, in := range h.Instrs {
		phi, ok := in.(*ssa.Phi)
		if !ok {
			break
		}
		phis = append(phis, phi)
		entryPhis[phi] = t.vals[phi]
	}
	pos := token.NoPos
	if len(h.Instrs) > 0 {
		pos = h.Instrs[len(h.Instrs)-1].Pos()
	}
	// init
	if li.lc != nil {
		env := t.loopEnv(li, entryPhis, h)
		for k, inv := range li.lc.Invariants {
			s, err := env.evalClause(inv.E)
			if err != nil {
				efail("%s:%d: loop %d invariant#%d: %v", inv.File, inv.Line, li.ord, k, err)
			}
			t.checkCl(fmt.Sprintf("loop%d/init#%d", li.ord, k), s, "invariant "+inv.Src+" holds on entry", pos)
		}
	}
	// implicit invariant of `for i := range slice` loops: the hidden index is >= -1
	for _, phi := range phis {
		if phi.Comment == "rangeindex" {
			t.check(fmt.Sprintf("loop%d/auto-rangeindex/init", li.ord), t.rangeIdxInv(phi, entryPhis[phi].S), "range index starts at -1 (below the length)", pos)
		}
	}
	// havoc
	mods, all, allGhost := t.loopMods(li)
	if all {
		t.havocAll(t.cur, !allGhost)
	} else {
		for _, n := range mods {
			if n == "NEXT" {
				t.bumpNext(t.cur)
				continue
			}
			t.heapHavoc(t.cur, n)
		}
	}
	cur := map[*ssa.Phi]Term{}
	for _, phi := range phis {
		s := t.vc.sortOf(phi.Type())
		x := Term{t.fresh("lv_"+mangle(phi.Comment), s), s}
		t.vals[phi] = x
		cur[phi] = x
		t.assumeTyped(x, phi.Type())
	}
	for _, phi := range phis {
		if phi.Comment == "rangeindex" {
			t.assume(t.rangeIdxInv(phi, cur[phi].S))
		}
	}
	// implicit frame invariant: heaps the function may not modify stay as at entry
	// (on objects that existed at entry) at every iteration; checked at each back edge
	if allowed, ok := t.frameAllowed(); ok {
		li.frameOnly = map[string]bool{}
		if all {
			li.frameOnly = nil
		} else {
			for _, n := range mods {
				li.frameOnly[n] = true
			}
		}
		if f := t.frameFormula(t.cur, allowed, li.frameOnly); f != "true" {
			t.assume(f)
			li.hasFrame = true
		}
	}
	if li.lc != nil {
		env := t.loopEnv(li, cur, h)
		for _, inv := range li.lc.Invariants {
			s, err := env.evalClause(inv.E)
			if err != nil {
				efail("%s:%d: loop %d invariant: %v", inv.File, inv.Line, li.ord, err)
			}
			t.assumeCl(s, false)
		}
		if li.lc.Decreases != nil {
			v, err := env.evalAny(li.lc.Decreases.E)
			if err != nil {
				efail("%s:%d: decreases: %v", li.lc.Decreases.File, li.lc.Decreases.Line, err)
			}
			li.decName = t.define("dec", SInt_, v.T.S)
		}
	}
}

func (t *Tr) loopBack(li *loopInfo, from *ssa.BasicBlock) {
	h := li.header
	// several back edges (continue statements): obligations of the 2nd, 3rd ... get a suffix
	sfx := ""
	if li.nBack > 0 {
		sfx = fmt.Sprintf("@back%d", li.nBack)
	}
	li.nBack++
	hasAuto := false
	for _, in := range h.Instrs {
		if phi, ok := in.(*ssa.Phi); ok && phi.Comment == "rangeindex" {
			hasAuto = true
		}
	}
	if li.lc == nil && !hasAuto && !li.hasFrame {
		return
	}
	idx := -1
	for i, p := range h.Preds {
		if p == from {
			idx = i
		}
	}
	saveCur, saveReach, saveBlock := t.cur, t.curReach, t.curBlock
	t.cur = t.out[from].clone()
	t.curReach = t.edgeCond(from, h)
	vals := map[*ssa.Phi]Term{}
	for _, in := range h.Instrs {
		phi, ok := in.(*ssa.Phi)
		if !ok {
			break
		}
		vals[phi] = t.val(phi.Edges[idx])
	}
	// evaluate with the header's phis temporarily rebound to the incoming values
	saved := map[*ssa.Phi]Term{}
	for phi, v := range vals {
		saved[phi] = t.vals[phi]
		t.vals[phi] = v
	}
	env := t.loopEnv(li, vals, from)
	pos := token.NoPos
	if len(from.Instrs) > 0 {
		pos = from.Instrs[len(from.Instrs)-1].Pos()
	}
	for phi, v := range vals {
		if phi.Comment == "rangeindex" {
			t.check(fmt.Sprintf("loop%d/auto-rangeindex/preserve%s", li.ord, sfx), t.rangeIdxInv(phi, v.S), "range index stays within [-1, len)", pos)
		}
	}
	if li.hasFrame {
		if allowed, ok := t.frameAllowed(); ok {
			if f := t.frameFormula(t.cur, allowed, li.frameOnly); f != "true" {
				t.check(fmt.Sprintf("loop%d/auto-frame%s", li.ord, sfx), f, "heaps outside the modifies clause are unchanged after the iteration", pos)
			}
		}
	}
	if li.lc == nil {
		for phi, v := range saved {
			t.vals[phi] = v
		}
		t.cur, t.curReach, t.curBlock = saveCur, saveReach, saveBlock
		return
	}
	for _, gs := range li.lc.GhostSets {
		t.applyGhostSet(env, gs)
	}
	for k, inv := range li.lc.Invariants {
		s, err := env.evalClause(inv.E)
		if err != nil {
			efail("%s:%d: loop %d invariant#%d: %v", inv.File, inv.Line, li.ord, k, err)
		}
		t.checkCl(fmt.Sprintf("loop%d/preserve#%d%s", li.ord, k, sfx), s, "invariant "+inv.Src+" is preserved", pos)
	}
	if li.lc.Decreases != nil {
		v, err := env.evalAny(li.lc.Decreases.E)
		if err != nil {
			efail("decreases: %v", err)
		}
		t.check(fmt.Sprintf("loop%d/decreases%s", li.ord, sfx), fmt.Sprintf("(and (<= 0 %s) (< %s %s))", li.decName, v.T.S, li.decName), "decreases "+li.lc.Decreases.Src, pos)
	}
	for phi, v := range saved {
		t.vals[phi] = v
	}
	t.cur, t.curReach, t.curBlock = saveCur, saveReach, saveBlock
}

// rangeLen: for the hidden index phi of a `range` loop over a slice/array/string,
// the SSA value it is compared against (the length), if the header has the
// usual shape `t = phi + 1; if t < n`.
func rangeLen(phi *ssa.Phi) ssa.Value {
	for _, in := range phi.Block().Instrs {
		cmp, ok := in.(*ssa.BinOp)
		if !ok || cmp.Op != token.LSS {
			continue
		}
		add, ok := cmp.X.(*ssa.BinOp)
		if !ok || add.Op != token.ADD || add.X != ssa.Value(phi) {
			continue
		}
		return cmp.Y
	}
	return nil
}

func (t *Tr) rangeIdxInv(phi *ssa.Phi, v string) string {
	s := fmt.Sprintf("(>= %s (- 1))", v)
	if n := rangeLen(phi); n != nil {
		if nv, ok := t.vals[n]; ok {
			s = fmt.Sprintf("(and %s (< %s %s))", s, v, nv.S)
		} else if c, ok := n.(*ssa.Const); ok {
			s = fmt.Sprintf("(and %s (< %s %s))", s, v, t.constant(c).S)
		}
	}
	return s
}

// loopMods computes the heaps a loop body may write.
func (t *Tr) loopMods(li *loopInfo) (names []string, all bool, allGhost bool) {
	set := map[string]bool{}
	if li.lc != nil {
		for _, gs := range li.lc.GhostSets {
			if id, ok := gs.Target.Fun.(*SIdent); ok {
				set["G_"+id.Name] = true
			}
		}
	}
	var blocks []*ssa.BasicBlock
	for b := range li.blocks {
		blocks = append(blocks, b)
	}
	sort.Slice(blocks, func(i, j int) bool { return blocks[i].Index < blocks[j].Index })
	for _, b := range blocks {
		for _, in := range b.Instrs {
			switch in := in.(type) {
			case *ssa.Store:
				t.modsOfPtr(in.Addr, set)
			case *ssa.MapUpdate:
				mt := in.Map.Type().Underlying().(*types.Map)
				set["MD_"+typeKey(mt)] = true
				set["MV_"+typeKey(mt)] = true
			case *ssa.Alloc, *ssa.MakeSlice, *ssa.MakeMap, *ssa.MakeChan, *ssa.MakeClosure:
				set["NEXT"] = true
				if al, ok := in.(*ssa.Alloc); ok {
					t.modsOfType(al.Type().Underlying().(*types.Pointer).Elem(), set)
				}
				if ms, ok := in.(*ssa.MakeSlice); ok {
					set[elemHeapName(ms.Type().Underlying().(*types.Slice).Elem())] = true
				}
				if mm, ok := in.(*ssa.MakeMap); ok {
					mt := mm.Type().Underlying().(*types.Map)
					set["MD_"+typeKey(mt)] = true
					set["MV_"+typeKey(mt)] = true
				}
			case *ssa.MakeInterface:
				s := t.vc.sortOf(in.X.Type())
				if s != SInt_ && s != SIfc {
					set["B_"+typeKey(in.X.Type())] = true
					set["NEXT"] = true
				}
			case *ssa.Convert:
				set["NEXT"] = true
				if sl, ok := in.Type().Underlying().(*types.Slice); ok {
					set[elemHeapName(sl.Elem())] = true
				}
			case *ssa.Range, *ssa.Next:
				for n := range t.vc.heapSort {
					if strings.HasPrefix(n, "RV_") {
						set[n] = true
					}
				}
			case ssa.CallInstruction:
				a, ag := t.callMods(in.Common(), set)
				if a {
					all = true
				}
				if ag {
					allGhost = true
				}
				set["NEXT"] = true
			case *ssa.Send, *ssa.Select:
				a, ag := t.pseudoMods(in, set)
				if a {
					all = true
				}
				if ag {
					allGhost = true
				}
			}
		}
	}
	for n := range set {
		if strings.HasPrefix(n, "~") {
			continue
		}
		names = append(names, n)
	}
	sort.Strings(names)
	return
}

func (t *Tr) modsOfPtr(p ssa.Value, set map[string]bool) {
	switch p := p.(type) {
	case *ssa.FieldAddr:
		st := p.X.Type().Underlying().(*types.Pointer).Elem()
		f := st.Underlying().(*types.Struct).Field(p.Field)
		t.modsOfField(st, f, set)
		return
	case *ssa.IndexAddr:
		switch u := p.X.Type().Underlying().(type) {
		case *types.Slice:
			set[elemHeapName(u.Elem())] = true
		case *types.Pointer:
			set[elemHeapName(u.Elem().Underlying().(*types.Array).Elem())] = true
		}
		return
	}
	if pt, ok := p.Type().Underlying().(*types.Pointer); ok {
		t.modsOfType(pt.Elem(), set)
	}
}

func (t *Tr) modsOfField(st types.Type, f *types.Var, set map[string]bool) {
	switch f.Type().Underlying().(type) {
	case *types.Struct, *types.Array:
		t.modsOfType(f.Type(), set)
	default:
		set[fieldHeapName(st, f)] = true
	}
}

func (t *Tr) modsOfType(ty types.Type, set map[string]bool) {
	switch u := ty.Underlying().(type) {
	case *types.Struct:
		for i := 0; i < u.NumFields(); i++ {
			t.modsOfField(ty, u.Field(i), set)
		}
	case *types.Array:
		set[elemHeapName(u.Elem())] = true
	default:
		set[cellHeapName(ty)] = true
	}
}

func fs2A(fs []Cl) []string {
	var out []string
	for _, f := range fs {
		if f.A != "" {
			out = append(out, f.A)
		}
	}
	return out
}

func mkAndNonEmpty(parts []string) string {
	if len(parts) == 0 {
		return ""
	}
	return mkAnd(parts...)
}
