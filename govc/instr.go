package main

import (
	"fmt"
	"go/token"
	"go/types"
	"strings"

	"golang.org/x/tools/go/ssa"
)

func (t *Tr) setVal(v ssa.Value, term string) Term {
	s := t.vc.sortOf(v.Type())
	x := Term{t.define(v.Name(), s, term), s}
	t.vals[v] = x
	return x
}

func (t *Tr) havocVal(v ssa.Value) Term {
	s := t.vc.sortOf(v.Type())
	if s == "TUPLE" {
		tup := v.Type().(*types.Tuple)
		var ts []Term
		for i := 0; i < tup.Len(); i++ {
			es := t.vc.sortOf(tup.At(i).Type())
			x := Term{t.fresh(v.Name()+"_"+fmt.Sprint(i), es), es}
			t.assumeTyped(x, tup.At(i).Type())
			ts = append(ts, x)
		}
		t.tuples[v] = ts
		return Term{}
	}
	x := Term{t.fresh(v.Name(), s), s}
	t.vals[v] = x
	t.assumeTyped(x, v.Type())
	return x
}

func (t *Tr) instr(in ssa.Instruction) {
	switch in := in.(type) {
	case *ssa.DebugRef:
		t.debugRef(in)
	case *ssa.Alloc:
		t.alloc(in)
	case *ssa.FieldAddr:
		t.fieldAddrInstr(in)
	case *ssa.IndexAddr:
		t.indexAddr(in)
	case *ssa.UnOp:
		t.unop(in)
	case *ssa.BinOp:
		t.binop(in)
	case *ssa.Store:
		a := t.addrOf(in.Addr)
		t.nilCheck(in.Addr, in.Pos())
		v := t.val(in.Val)
		if v.Sort != t.vc.sortOf(a.storedType()) {
			v = t.vc.zeroOf(a.storedType())
		}
		t.store(t.cur, a, v.S)
	case *ssa.If:
		c := t.val(in.Cond).S
		b := in.Block()
		t.edgeC[[2]*ssa.BasicBlock{b, b.Succs[0]}] = mkAnd(t.curReach, c)
		t.edgeC[[2]*ssa.BasicBlock{b, b.Succs[1]}] = mkAnd(t.curReach, mkNot(c))
		if b.Succs[0] == b.Succs[1] {
			t.edgeC[[2]*ssa.BasicBlock{b, b.Succs[0]}] = t.curReach
		}
	case *ssa.Jump:
	case *ssa.Return:
		t.ret(in)
	case *ssa.Panic:
		t.safety("panic", "false", "explicit panic is unreachable", in.Pos())
	case *ssa.Call:
		t.call(in, in.Common(), in)
	case *ssa.Go:
		t.vc.note("go statement: spawned function is not executed here (no interleavings)")
		// the spawned function's preconditions must hold when it is spawned
		if ct, key := t.findContract(in.Common()); ct != nil {
			var args []ssa.Value
			if in.Common().IsInvoke() {
				args = append(args, in.Common().Value)
			}
			args = append(args, in.Common().Args...)
			t.preOnly = true
			t.applyContract(ct, key, args, nil, in.Pos(), in.Common())
			t.preOnly = false
		}
	case *ssa.Defer:
		t.defers = append(t.defers, deferRec{in, in.Block()})
	case *ssa.RunDefers:
		t.runDefers()
	case *ssa.Slice:
		t.slice(in)
	case *ssa.MakeSlice:
		t.makeSlice(in)
	case *ssa.MakeMap:
		ref := t.allocRef(t.cur)
		mt := in.Type().Underlying().(*types.Map)
		md, mv := t.mapHeaps(t.cur, mt)
		ks := t.vc.sortOf(mt.Key())
		t.heapSet(t.cur, "MD_"+typeKey(mt), "", fmt.Sprintf("(store %s %s ((as const (Array %s Bool)) false))", md, ref, ks))
		_ = mv
		t.setVal(in, ref)
	case *ssa.MakeChan:
		ref := t.allocRef(t.cur)
		t.setVal(in, ref)
	case *ssa.MakeClosure:
		ref := t.allocRef(t.cur)
		t.setVal(in, ref)
		t.clos[in] = in
	case *ssa.MakeInterface:
		t.makeInterface(in)
	case *ssa.ChangeInterface:
		t.vals[in] = t.val(in.X)
	case *ssa.ChangeType:
		t.vals[in] = t.val(in.X)
		if a, ok := t.addrs[in.X]; ok {
			t.addrs[in] = a
		}
	case *ssa.Convert:
		t.convert(in)
	case *ssa.TypeAssert:
		t.typeAssert(in)
	case *ssa.Extract:
		if ts, ok := t.tuples[in.Tuple]; ok && in.Index < len(ts) {
			t.vals[in] = ts[in.Index]
		} else {
			t.havocVal(in)
		}
	case *ssa.Field:
		x := t.val(in.X)
		st := in.X.Type().Underlying().(*types.Struct)
		t.setVal(in, fmt.Sprintf("(%s_%d %s)", x.Sort, in.Field, x.S))
		_ = st
	case *ssa.Index:
		x := t.val(in.X)
		i := t.val(in.Index)
		switch u := in.X.Type().Underlying().(type) {
		case *types.Array:
			t.safety("index", fmt.Sprintf("(and (<= 0 %s) (< %s %d))", i.S, i.S, u.Len()), "array index in range", in.Pos())
			t.setVal(in, fmt.Sprintf("(select %s %s)", x.S, i.S))
		case *types.Basic:
			t.vc.needStr()
			t.safety("index", fmt.Sprintf("(and (<= 0 %s) (< %s (strlen %s)))", i.S, i.S, x.S), "string index in range", in.Pos())
			t.setVal(in, fmt.Sprintf("(strat %s %s)", x.S, i.S))
		default:
			t.havocVal(in)
		}
	case *ssa.Lookup:
		t.lookup(in)
	case *ssa.MapUpdate:
		mt := in.Map.Type().Underlying().(*types.Map)
		m := t.val(in.Map)
		t.safety("nilmap", fmt.Sprintf("(not (= %s 0))", m.S), "assignment to entry in nil map", in.Pos())
		md, mv := t.mapHeaps(t.cur, mt)
		k, v := t.val(in.Key), t.val(in.Value)
		t.heapSet(t.cur, "MD_"+typeKey(mt), "", fmt.Sprintf("(store %s %s (store (select %s %s) %s true))", md, m.S, md, m.S, k.S))
		t.heapSet(t.cur, "MV_"+typeKey(mt), "", fmt.Sprintf("(store %s %s (store (select %s %s) %s %s))", mv, m.S, mv, m.S, k.S, v.S))
	case *ssa.Range:
		t.rangeInstr(in)
	case *ssa.Next:
		t.nextInstr(in)
	case *ssa.Select:
		t.selectInstr(in)
	case *ssa.Send:
		t.sendInstr(in)
	case *ssa.Phi:
	case *ssa.SliceToArrayPointer:
		t.havocVal(in)
		t.vc.note("slice-to-array-pointer conversion havocked")
	case *ssa.MultiConvert:
		t.havocVal(in)
	default:
		if v, ok := in.(ssa.Value); ok {
			t.havocVal(v)
		}
		t.vc.note("unsupported instruction %T", in)
	}
}

func (a *Addr) storedType() types.Type {
	if len(a.Path) > 0 {
		return a.PathT
	}
	return a.Ty
}

func (t *Tr) debugRef(in *ssa.DebugRef) {
	obj := in.Object()
	if obj == nil {
		return
	}
	if _, isVar := obj.(*types.Var); !isVar {
		return
	}
	name := obj.Name()
	if name == "_" || name == "" {
		return
	}
	x := in.X
	if in.IsAddr {
		// x is the address of the variable
		if al, ok := x.(*ssa.Alloc); ok {
			t.addDebug(name, al)
		}
		return
	}
	t.addDebug(name, x)
}

func (t *Tr) addDebug(name string, v ssa.Value) {
	for _, o := range t.debugVals[name] {
		if o == v {
			return
		}
	}
	t.debugVals[name] = append(t.debugVals[name], v)
}

func (t *Tr) alloc(in *ssa.Alloc) {
	ref := t.allocRef(t.cur)
	t.setVal(in, ref)
	elem := in.Type().Underlying().(*types.Pointer).Elem()
	a := t.addrOfTerm(ref, elem)
	t.zeroInit(t.cur, a)
	t.allocInvs(a)
	if !in.Heap || closureOnly(in) {
		t.locals = append(t.locals, in)
	}
	if in.Comment != "" && in.Comment != "complit" && in.Comment != "varargs" && in.Comment != "new" {
		t.addDebug(in.Comment, in)
	}
}

// allocInvs assumes the declared facts about freshly zero-allocated values
// (e.g. a zero container/list.List is an empty ghost window), for the value
// itself and every struct nested in it by value.
func (t *Tr) allocInvs(a *Addr) {
	if a.Kind != aStruct {
		return
	}
	key := shortKey(types.TypeString(a.Ty, nil))
	if ai, ok := t.w.CS.AllocInvs[key]; ok {
		env := &Env{t: t, vars: map[string]Val{"self": {T: Term{a.Obj, SInt_}, Ty: types.NewPointer(a.Ty)}}, cur: t.cur, pkg: ai.Pkg}
		s, err := env.evalClause(ai.E)
		if err != nil {
			efail("%s:%d: allocinv: %v", ai.File, ai.Line, err)
		}
		t.assumeCl(s, false)
		t.vc.Trusted["allocinv "+key+": "+ai.Src] = true
	}
	stt := a.Ty.Underlying().(*types.Struct)
	for i := 0; i < stt.NumFields(); i++ {
		t.allocInvs(t.fieldAddr(a.Ty, i, a.Obj))
	}
}

// closureOnly: a variable boxed only because closures of this function capture
// it: its address is never stored, passed to a call or converted. Such a box
// can be written only by this function and those closures.
func closureOnly(a *ssa.Alloc) bool {
	refs := a.Referrers()
	if refs == nil {
		return false
	}
	captured := false
	for _, r := range *refs {
		switch r := r.(type) {
		case *ssa.UnOp:
			if r.Op != token.MUL {
				return false
			}
		case *ssa.Store:
			if r.Val == ssa.Value(a) {
				return false
			}
		case *ssa.FieldAddr, *ssa.IndexAddr, *ssa.DebugRef:
		case *ssa.MakeClosure:
			captured = true
		default:
			return false
		}
	}
	return captured
}

// escapes: is the address used other than as the target of loads, stores and
// further address computations (i.e. does it become a first-class pointer)?
func escapes(v ssa.Value) bool {
	refs := v.Referrers()
	if refs == nil {
		return false
	}
	for _, r := range *refs {
		switch r := r.(type) {
		case *ssa.UnOp:
			if r.Op == token.MUL {
				continue
			}
			return true
		case *ssa.Store:
			if r.Addr == v && r.Val != v {
				continue
			}
			return true
		case *ssa.FieldAddr, *ssa.IndexAddr, *ssa.DebugRef:
			continue
		case ssa.CallInstruction:
			continue // bound to the location itself by applyContract (Val.Ptr)
		default:
			return true
		}
	}
	return false
}

// linkEscaping: an interior address that becomes a first-class pointer is
// read elsewhere through the cell view of its pointee type; link the two
// views at the point of escape.
func (t *Tr) linkEscaping(v ssa.Value, a *Addr) {
	if (a.Kind != aField && a.Kind != aElem) || !escapes(v) {
		return
	}
	ty := a.storedType()
	switch t.vc.sortOf(ty) {
	case SInt_, SBool_, SSlc, SIfc:
	default:
		return
	}
	cell := &Addr{Kind: aCell, Heap: cellHeapName(ty), Obj: t.addrValue(a), Ty: ty}
	t.assume(fmt.Sprintf("(= %s %s)", t.load(t.cur, cell).S, t.load(t.cur, a).S))
	t.vc.Trusted["interior pointer that escapes is linked to its location at the point of escape (later writes through the other view are not tracked)"] = true
}

func (t *Tr) nilCheck(p ssa.Value, pos token.Pos) {
	// only for pointers that are first-class values (params, loads, call results)
	switch p.(type) {
	case *ssa.Alloc, *ssa.Global:
		return
	case *ssa.FieldAddr, *ssa.IndexAddr:
		return // checked when the address was formed
	}
	x := t.val(p)
	t.safety("nil", fmt.Sprintf("(not (= %s 0))", x.S), "nil pointer dereference", pos)
}

func (t *Tr) fieldAddrInstr(in *ssa.FieldAddr) {
	base := t.addrOf(in.X)
	sty := in.X.Type().Underlying().(*types.Pointer).Elem()
	if base != nil && (base.Kind == aElem || base.Kind == aField || base.Kind == aCell) {
		// struct value stored inside a slice element / field / cell: path selection
		stt := sty.Underlying().(*types.Struct)
		na := *base
		na.Path = append(append([]fieldSel{}, base.Path...), fieldSel{sort: t.vc.sortOf(sty), idx: in.Field, n: stt.NumFields(), st: stt})
		na.PathT = stt.Field(in.Field).Type()
		t.addrs[in] = &na
		t.vals[in] = Term{t.addrValue(base), SInt_}
		return
	}
	t.nilCheck(in.X, in.Pos())
	obj := t.val(in.X).S
	if base != nil && base.Kind == aStruct {
		obj = base.Obj
	}
	a := t.fieldAddr(sty, in.Field, obj)
	t.addrs[in] = a
	t.vals[in] = Term{t.define(in.Name(), SInt_, t.addrValue(a)), SInt_}
	t.linkEscaping(in, a)
}

func (t *Tr) indexAddr(in *ssa.IndexAddr) {
	i := t.val(in.Index)
	switch u := in.X.Type().Underlying().(type) {
	case *types.Slice:
		x := t.val(in.X)
		t.safety("index", fmt.Sprintf("(and (<= 0 %s) (< %s (s-len %s)))", i.S, i.S, x.S), "slice index in range", in.Pos())
		a := &Addr{Kind: aElem, Heap: elemHeapName(u.Elem()), Obj: fmt.Sprintf("(s-base %s)", x.S), Idx: linNorm(fmt.Sprintf("(+ (s-off %s) %s)", x.S, i.S)), Ty: u.Elem()}
		t.addrs[in] = a
		t.vals[in] = Term{t.addrValue(a), SInt_}
		t.linkEscaping(in, a)
	case *types.Pointer:
		at := u.Elem().Underlying().(*types.Array)
		t.nilCheck(in.X, in.Pos())
		base := t.addrOf(in.X)
		t.safety("index", fmt.Sprintf("(and (<= 0 %s) (< %s %d))", i.S, i.S, at.Len()), "array index in range", in.Pos())
		a := &Addr{Kind: aElem, Heap: elemHeapName(at.Elem()), Obj: base.Obj, Idx: i.S, Ty: at.Elem()}
		t.addrs[in] = a
		t.vals[in] = Term{t.addrValue(a), SInt_}
	default:
		t.havocVal(in)
	}
}

func (t *Tr) unop(in *ssa.UnOp) {
	switch in.Op {
	case token.MUL: // load
		if g, ok := in.X.(*ssa.Global); ok && t.inInit && g.Name() == "init$guard" {
			// the initialiser's effect is what happens the one time it runs
			t.vals[in] = Term{"false", SBool_}
			return
		}
		if g, ok := in.X.(*ssa.Global); ok && g.Pkg != nil && !t.inInit && t.w.roGlobal[globalKey(g.Pkg.Pkg, g.Name())] {
			// a global assigned only by package initialisers: a constant of the run
			x := t.roGlobalVal(globalKey(g.Pkg.Pkg, g.Name()), in.Type())
			t.vals[in] = x
			return
		}
		t.nilCheck(in.X, in.Pos())
		a := t.addrOf(in.X)
		if g, ok := in.X.(*ssa.Global); ok {
			a = t.addrOfTerm(t.val(g).S, g.Type().Underlying().(*types.Pointer).Elem())
		}
		v := t.load(t.cur, a)
		x := t.setVal(in, v.S)
		if a.Heap != "" && t.cur.gen == 0 {
			if _, written := t.cur.h[a.Heap]; !written {
				// the location has not been written since entry: what it holds existed at entry
				t.assumeTypedAt(x, in.Type(), t.next(t.entry))
				return
			}
		}
		t.assumeTyped(x, in.Type())
	case token.NOT:
		t.setVal(in, mkNot(t.val(in.X).S))
	case token.SUB:
		x := t.val(in.X)
		if x.Sort != SInt_ {
			t.havocVal(in)
			return
		}
		t.setVal(in, t.wrap(fmt.Sprintf("(- %s)", x.S), in.Type()))
	case token.XOR:
		x := t.val(in.X)
		if bits, uns, ok := intBits(in.Type()); ok && uns {
			t.setVal(in, fmt.Sprintf("(- %s %s)", pow2m1(bits), x.S))
		} else if ok {
			t.setVal(in, fmt.Sprintf("(- (- %s) 1)", x.S))
		} else {
			t.havocVal(in)
		}
	case token.ARROW:
		t.recvInstr(in)
	default:
		t.havocVal(in)
	}
}

func pow2m1(k int) string {
	switch k {
	case 8:
		return "255"
	case 16:
		return "65535"
	case 32:
		return "4294967295"
	}
	return "18446744073709551615"
}

// wrap applies the modular semantics of fixed-width unsigned types (and
// narrow signed types); int/int64 are treated as mathematical integers.
func (t *Tr) wrap(term string, ty types.Type) string {
	bits, uns, ok := intBits(ty)
	if !ok {
		return term
	}
	if uns {
		return fmt.Sprintf("(mod %s %s)", term, pow2(bits))
	}
	if bits < 64 {
		return fmt.Sprintf("(- (mod (+ %s %s) %s) %s)", term, pow2(bits-1), pow2(bits), pow2(bits-1))
	}
	t.vc.Trusted["64-bit signed arithmetic treated as mathematical (no overflow)"] = true
	return term
}

func (t *Tr) binop(in *ssa.BinOp) {
	x, y := t.val(in.X), t.val(in.Y)
	xt := in.X.Type()
	op := in.Op
	switch op {
	case token.EQL, token.NEQ:
		if x.Sort != y.Sort {
			t.havocVal(in)
			return
		}
		var s string
		if _, isSl := xt.Underlying().(*types.Slice); isSl {
			// only comparison with nil is legal
			o := x
			if c, ok := in.X.(*ssa.Const); ok && c.Value == nil {
				o = y
			}
			s = fmt.Sprintf("(= (s-base %s) 0)", o.S)
		} else {
			s = fmt.Sprintf("(= %s %s)", x.S, y.S)
		}
		if op == token.NEQ {
			s = mkNot(s)
		}
		t.setVal(in, s)
		return
	case token.LSS, token.LEQ, token.GTR, token.GEQ:
		if x.Sort == SInt_ && isStringType(xt) {
			t.havocVal(in)
			t.vc.note("string ordering comparison havocked")
			return
		}
		if x.Sort != SInt_ && x.Sort != "Real" {
			t.havocVal(in)
			return
		}
		t.setVal(in, fmt.Sprintf("(%s %s %s)", op.String(), x.S, y.S))
		return
	}
	if x.Sort == SBool_ {
		switch op {
		case token.AND, token.LAND:
			t.setVal(in, mkAnd(x.S, y.S))
		case token.OR, token.LOR:
			t.setVal(in, mkOr(x.S, y.S))
		default:
			t.havocVal(in)
		}
		return
	}
	if isStringType(in.Type()) && op == token.ADD {
		t.setVal(in, t.strConcat(x.S, y.S))
		return
	}
	if x.Sort != SInt_ {
		t.havocVal(in)
		return
	}
	ty := in.Type()
	switch op {
	case token.ADD:
		t.setVal(in, t.wrap(foldArith("+", x.S, y.S), ty))
	case token.SUB:
		t.setVal(in, t.wrap(foldArith("-", x.S, y.S), ty))
	case token.MUL:
		t.setVal(in, t.wrap(foldArith("*", x.S, y.S), ty))
	case token.QUO:
		t.safety("div", fmt.Sprintf("(not (= %s 0))", y.S), "division by zero", in.Pos())
		// Go truncates toward zero
		t.setVal(in, fmt.Sprintf("(ite (>= %[1]s 0) (ite (> %[2]s 0) (div %[1]s %[2]s) (- (div %[1]s (- %[2]s)))) (ite (> %[2]s 0) (- (div (- %[1]s) %[2]s)) (div (- %[1]s) (- %[2]s))))", x.S, y.S))
	case token.REM:
		t.safety("div", fmt.Sprintf("(not (= %s 0))", y.S), "division by zero", in.Pos())
		t.setVal(in, fmt.Sprintf("(ite (>= %[1]s 0) (mod %[1]s (abs %[2]s)) (- (mod (- %[1]s) (abs %[2]s))))", x.S, y.S))
	case token.AND:
		t.setVal(in, t.bitAnd(in, x, y))
	case token.SHL:
		if k, ok := isLit(y.S); ok && k >= 0 && k < 64 {
			t.setVal(in, t.wrap(fmt.Sprintf("(* %s %s)", x.S, pow2(int(k))), ty))
		} else {
			t.havocVal(in)
			t.vc.note("non-constant shift havocked")
		}
	case token.SHR:
		if k, ok := isLit(y.S); ok && k >= 0 && k < 64 {
			t.setVal(in, fmt.Sprintf("(div %s %s)", x.S, pow2(int(k))))
		} else {
			t.havocVal(in)
			t.vc.note("non-constant shift havocked")
		}
	case token.OR:
		// x | y for disjoint-bit operands is not recognised: keep bounds only
		v := t.havocVal(in)
		t.assume(fmt.Sprintf("(and (>= %s %s) (>= %s %s) (<= %s (+ %s %s)))", v.S, x.S, v.S, y.S, v.S, x.S, y.S))
		t.vc.note("bitwise | approximated by bounds")
	default:
		t.havocVal(in)
		t.vc.note("bit operation %s havocked", op)
	}
}

func (t *Tr) bitAnd(in *ssa.BinOp, x, y Term) string {
	mask, ok := isLit(y.S)
	o := x
	if !ok {
		mask, ok = isLit(x.S)
		o = y
	}
	if ok && mask >= 0 {
		// low mask 2^k-1
		if (mask+1)&mask == 0 {
			return fmt.Sprintf("(mod %s %d)", o.S, mask+1)
		}
		// high mask within a byte/word: m = (2^k-1) << s
		s := 0
		m := mask
		for m&1 == 0 {
			m >>= 1
			s++
		}
		if (m+1)&m == 0 {
			return fmt.Sprintf("(* (mod (div %s %s) %d) %s)", o.S, pow2(s), m+1, pow2(s))
		}
	}
	v := t.fresh(in.Name(), SInt_)
	t.assume(fmt.Sprintf("(and (<= 0 %s) (<= %s %s))", v, v, x.S))
	t.vc.note("bitwise & with non-mask operand approximated")
	return v
}

func (t *Tr) ret(in *ssa.Return) {
	if t.c == nil {
		return
	}
	// reachability witness: the assumptions made so far do not exclude this return
	if withCover {
		t.vc.Items = append(t.vc.Items, Item{Kind: itOblig, Text: t.curReach, Name: fmt.Sprintf("cover/return#%d", t.retCount), Expect: "sat", Src: "return is reachable under the assumptions (non-vacuity)"})
	}
	// vacuity guard (every tier): the assumptions collected on the way to this
	// return must not be contradictory. The query asks the solver to refute
	// reachability; only a definite `unsat` is a failure.
	t.vc.Items = append(t.vc.Items, Item{Kind: itOblig, Text: t.curReach, Name: fmt.Sprintf("novacuity/return#%d", t.retCount), Expect: "notunsat", Src: "assumptions on the path to this return are not contradictory"})
	t.vc.NOblig++
	if t.inInit {
		// the package's global invariants are what its initialiser establishes
		k := 0
		for _, gi := range t.w.CS.GlobInvs {
			if gi.Pkg != t.pkg {
				continue
			}
			env := t.envAt(nil)
			s, e := env.evalClause(gi.E)
			if e != nil {
				efail("%s:%d: globalinv: %v", gi.File, gi.Line, e)
			}
			t.checkCl(fmt.Sprintf("globalinv#%d", k), s, "globalinv "+gi.Src+" is established by the package initialiser", in.Pos())
			k++
		}
	}
	env := t.envAt(nil)
	env.cur = t.cur
	env.old = t.entry
	names := resultAliases(t.fn.Signature)
	for i, r := range in.Results {
		if i >= len(names) {
			break
		}
		v := t.val(r)
		ty := t.fn.Signature.Results().At(i).Type()
		if v.Sort != t.vc.sortOf(ty) {
			v = t.vc.zeroOf(ty)
		}
		for k, n := range names[i] {
			if _, isParam := t.paramEnv[n]; isParam && k > 0 {
				continue // an alias (err, result) never shadows a parameter of that name
			}
			env.vars[n] = Val{T: v, Ty: ty}
		}
	}
	// ghost assignments performed at return
	for _, gs := range t.c.GhostSets {
		t.applyGhostSet(env, gs)
	}
	for i, en := range t.c.Ensures {
		s, err := env.evalClause(en.E)
		if err != nil {
			efail("%s:%d: ensures#%d: %v", en.File, en.Line, i, err)
		}
		pc := Cl{Q: t.guard(s.Q), U: t.guard(s.U)}
		if s.A != "" {
			pc.A = t.guard(s.A)
		}
		t.posts[i] = append(t.posts[i], pc)
	}
	t.frameAtReturn()
	t.retCount++
}

// applyGhostSet performs `G(args) := val` in the current state.
func (t *Tr) applyGhostSet(env *Env, gs GhostSet) {
	id, _ := gs.Target.Fun.(*SIdent)
	var g *GhostDecl
	if id != nil {
		g = t.w.CS.Ghosts[id.Name]
	}
	if g == nil || !g.IsVar {
		efail("%s:%d: ghostset target is not a ghost var", gs.File, gs.Line)
	}
	gsort, ptys, rty := t.ghostSort(g)
	var as []string
	for i, a := range gs.Target.Args {
		v, err := env.evalArg(a, ptys[i])
		if err != nil {
			efail("%s:%d: ghostset: %v", gs.File, gs.Line, err)
		}
		as = append(as, v.T.S)
	}
	rv, err := env.evalArg(gs.Val, rty)
	if err != nil {
		efail("%s:%d: ghostset: %v", gs.File, gs.Line, err)
	}
	h := t.heapGet(t.cur, "G_"+g.Name, gsort)
	t.heapSet(t.cur, "G_"+g.Name, gsort, nestedStore(h, as, rv.T.S))
	env.cur = t.cur
}

func (t *Tr) slice(in *ssa.Slice) {
	var lo, hi, mx string
	if in.Low != nil {
		lo = t.val(in.Low).S
	} else {
		lo = "0"
	}
	switch u := in.X.Type().Underlying().(type) {
	case *types.Slice:
		x := t.val(in.X)
		if in.High != nil {
			hi = t.val(in.High).S
		} else {
			hi = fmt.Sprintf("(s-len %s)", x.S)
		}
		capx := fmt.Sprintf("(s-cap %s)", x.S)
		if in.Max != nil {
			mx = t.val(in.Max).S
			t.safety("slice", fmt.Sprintf("(and (<= 0 %s) (<= %s %s) (<= %s %s) (<= %s %s))", lo, lo, hi, hi, mx, mx, capx), "slice bounds in range", in.Pos())
		} else {
			mx = capx
			t.safety("slice", fmt.Sprintf("(and (<= 0 %s) (<= %s %s) (<= %s %s))", lo, lo, hi, hi, capx), "slice bounds in range", in.Pos())
		}
		t.setVal(in, fmt.Sprintf("(mk-slice (s-base %s) %s %s %s)", x.S, linNorm(fmt.Sprintf("(+ (s-off %s) %s)", x.S, lo)), linNorm(fmt.Sprintf("(- %s %s)", hi, lo)), linNorm(fmt.Sprintf("(- %s %s)", mx, lo))))
	case *types.Pointer: // *[N]T
		at := u.Elem().Underlying().(*types.Array)
		t.nilCheck(in.X, in.Pos())
		base := t.addrOf(in.X)
		n := fmt.Sprint(at.Len())
		if in.High != nil {
			hi = t.val(in.High).S
		} else {
			hi = n
		}
		if in.Max != nil {
			mx = t.val(in.Max).S
		} else {
			mx = n
		}
		t.safety("slice", fmt.Sprintf("(and (<= 0 %s) (<= %s %s) (<= %s %s) (<= %s %s))", lo, lo, hi, hi, mx, mx, n), "slice bounds in range", in.Pos())
		t.setVal(in, fmt.Sprintf("(mk-slice %s %s %s %s)", base.Obj, lo, linNorm(fmt.Sprintf("(- %s %s)", hi, lo)), linNorm(fmt.Sprintf("(- %s %s)", mx, lo))))
	case *types.Basic: // string
		x := t.val(in.X)
		t.vc.needStr()
		if in.High != nil {
			hi = t.val(in.High).S
		} else {
			hi = fmt.Sprintf("(strlen %s)", x.S)
		}
		t.safety("slice", fmt.Sprintf("(and (<= 0 %s) (<= %s %s) (<= %s (strlen %s)))", lo, lo, hi, hi, x.S), "string slice bounds in range", in.Pos())
		t.declSubstr()
		t.setVal(in, fmt.Sprintf("(substr %s %s %s)", x.S, lo, hi))
	default:
		t.havocVal(in)
	}
}

func (t *Tr) makeSlice(in *ssa.MakeSlice) {
	ln := t.val(in.Len).S
	cp := t.val(in.Cap).S
	t.safety("makeneg", fmt.Sprintf("(and (<= 0 %s) (<= %s %s))", ln, ln, cp), "make: len and cap in range", in.Pos())
	ref := t.allocRef(t.cur)
	et := in.Type().Underlying().(*types.Slice).Elem()
	hn := elemHeapName(et)
	hs := t.elemHeapSort(et)
	h := t.heapGet(t.cur, hn, hs)
	t.heapSet(t.cur, hn, hs, fmt.Sprintf("(store %s %s ((as const (Array Int %s)) %s))", h, ref, t.vc.sortOf(et), t.vc.zeroOf(et).S))
	t.setVal(in, fmt.Sprintf("(mk-slice %s 0 %s %s)", ref, ln, cp))
}

func (t *Tr) boxHeap(ty types.Type) (string, Sort) {
	return "B_" + typeKey(ty), Sort("(Array Int " + string(t.vc.sortOf(ty)) + ")")
}

func (t *Tr) makeInterface(in *ssa.MakeInterface) {
	x := t.val(in.X)
	xt := in.X.Type()
	tag := t.vc.tagOf(xt)
	switch x.Sort {
	case SInt_:
		t.setVal(in, fmt.Sprintf("(mk-iface %s %s)", tag, x.S))
	case SIfc:
		t.vals[in] = x
	default:
		ref := t.allocRef(t.cur)
		hn, hs := t.boxHeap(xt)
		h := t.heapGet(t.cur, hn, hs)
		t.heapSet(t.cur, hn, hs, fmt.Sprintf("(store %s %s %s)", h, ref, x.S))
		t.setVal(in, fmt.Sprintf("(mk-iface %s %s)", tag, ref))
	}
}

func (t *Tr) typeAssert(in *ssa.TypeAssert) {
	x := t.val(in.X)
	at := in.AssertedType
	if _, isIface := at.Underlying().(*types.Interface); isIface {
		// interface-to-interface: the dynamic type must implement it
		name := t.vc.implPred(at)
		ok := fmt.Sprintf("(and (not (= (i-tag %s) 0)) (%s (i-tag %s)))", x.S, name, x.S)
		if in.CommaOk {
			t.tuples[in] = []Term{{fmt.Sprintf("(ite %s %s (mk-iface 0 0))", ok, x.S), SIfc}, {ok, SBool_}}
			return
		}
		t.safety("typeassert", ok, "interface conversion", in.Pos())
		t.vals[in] = x
		return
	}
	tag := t.vc.tagOf(at)
	ok := fmt.Sprintf("(= (i-tag %s) %s)", x.S, tag)
	s := t.vc.sortOf(at)
	var v string
	switch s {
	case SInt_:
		v = fmt.Sprintf("(i-val %s)", x.S)
	default:
		hn, hs := t.boxHeap(at)
		h := t.heapGet(t.cur, hn, hs)
		v = fmt.Sprintf("(select %s (i-val %s))", h, x.S)
	}
	if in.CommaOk {
		t.tuples[in] = []Term{{t.define(in.Name(), s, fmt.Sprintf("(ite %s %s %s)", ok, v, t.vc.zeroOf(at).S)), s}, {ok, SBool_}}
		return
	}
	t.safety("typeassert", ok, "type assertion holds", in.Pos())
	xv := t.setVal(in, v)
	t.assumeTyped(xv, at)
}

func (t *Tr) convert(in *ssa.Convert) {
	x := t.val(in.X)
	from, to := in.X.Type(), in.Type()
	_, _, fi := intBits(from)
	tb, tu, ti := intBits(to)
	switch {
	case fi && ti:
		fb, fu, _ := intBits(from)
		if (fu == tu && fb <= tb) || (fu && !tu && fb < tb) {
			t.vals[in] = x
			return
		}
		if tb == 64 && !tu {
			// uint64 -> int: wrap
			t.setVal(in, fmt.Sprintf("(- (mod (+ %s %s) %s) %s)", x.S, pow2(63), pow2(64), pow2(63)))
			return
		}
		t.setVal(in, t.wrap(x.S, to))
	case fi && t.vc.sortOf(to) == "Real":
		// integer -> float: exact in the reals (float64 rounding of large magnitudes not modelled)
		t.setVal(in, fmt.Sprintf("(to_real %s)", x.S))
		t.vc.Trusted["int->float64 conversion treated as exact"] = true
	case isStringType(from) && isByteSlice(to):
		// []byte(s): fresh array with the string's bytes
		t.vc.needStr()
		ref := t.allocRef(t.cur)
		et := to.Underlying().(*types.Slice).Elem()
		hn, hs := elemHeapName(et), t.elemHeapSort(et)
		h := t.heapGet(t.cur, hn, hs)
		arr := t.fresh("bytes", "(Array Int Int)")
		if c, ok := in.X.(*ssa.Const); ok && len(constantString(c)) <= 64 {
			s := constantString(c)
			for i := 0; i < len(s); i++ {
				t.assumeRaw(fmt.Sprintf("(= (select %s %d) %d)", arr, i, s[i]))
			}
		} else {
			t.assumeRaw(fmt.Sprintf("(forall ((i Int)) (! (=> (and (<= 0 i) (< i (strlen %s))) (= (select %s i) (strat %s i))) :pattern ((select %s i))))", x.S, arr, x.S, arr))
		}
		t.heapSet(t.cur, hn, hs, fmt.Sprintf("(store %s %s %s)", h, ref, arr))
		t.setVal(in, fmt.Sprintf("(mk-slice %s 0 (strlen %s) (strlen %s))", ref, x.S, x.S))
	case isByteSlice(from) && isStringType(to):
		// string(b): a function of the slice header (contents are linked below and
		// assumed not to change while the string is compared with the slice)
		t.vc.needStr()
		t.vc.declFun("str_of", "(declare-fun str_of (Slice) Int)")
		et := from.Underlying().(*types.Slice).Elem()
		h := t.heapGet(t.cur, elemHeapName(et), t.elemHeapSort(et))
		v := t.setVal(in, fmt.Sprintf("(str_of %s)", x.S))
		t.assume(fmt.Sprintf("(= (strlen %s) (s-len %s))", v.S, x.S))
		t.assume(fmt.Sprintf("(forall ((i Int)) (! (=> (and (<= 0 i) (< i (s-len %[2]s))) (= (strat %[1]s i) (select (select %[3]s (s-base %[2]s)) (+ (s-off %[2]s) i)))) :pattern ((strat_raw %[1]s i))))", v.S, x.S, h))
	case t.vc.sortOf(from) == t.vc.sortOf(to) && t.vc.sortOf(to) != "TUPLE" && !isStringType(to):
		t.vals[in] = x
	default:
		t.havocVal(in)
		t.vc.note("conversion %v -> %v havocked", from, to)
	}
}

func isByteSlice(t types.Type) bool {
	s, ok := t.Underlying().(*types.Slice)
	if !ok {
		return false
	}
	b, ok := s.Elem().Underlying().(*types.Basic)
	return ok && b.Kind() == types.Uint8
}

func (t *Tr) lookup(in *ssa.Lookup) {
	switch u := in.X.Type().Underlying().(type) {
	case *types.Map:
		m := t.val(in.X)
		k := t.val(in.Index)
		md, mv := t.mapHeaps(t.cur, u)
		ok := fmt.Sprintf("(select (select %s %s) %s)", md, m.S, k.S)
		vs := t.vc.sortOf(u.Elem())
		v := fmt.Sprintf("(ite %s (select (select %s %s) %s) %s)", ok, mv, m.S, k.S, t.vc.zeroOf(u.Elem()).S)
		// nil map: every lookup misses
		t.assume(fmt.Sprintf("(=> (= %s 0) (not %s))", m.S, ok))
		if in.CommaOk {
			x := Term{t.define(in.Name(), vs, v), vs}
			t.assumeTyped(x, u.Elem())
			t.tuples[in] = []Term{x, {t.define(in.Name()+"_ok", SBool_, ok), SBool_}}
			return
		}
		x := t.setVal(in, v)
		t.assumeTyped(x, u.Elem())
	case *types.Basic:
		x := t.val(in.X)
		i := t.val(in.Index)
		t.vc.needStr()
		t.safety("index", fmt.Sprintf("(and (<= 0 %s) (< %s (strlen %s)))", i.S, i.S, x.S), "string index in range", in.Pos())
		t.setVal(in, fmt.Sprintf("(strat %s %s)", x.S, i.S))
	default:
		t.havocVal(in)
	}
}

// ---- range over maps / strings ----

func (t *Tr) rangeInstr(in *ssa.Range) {
	t.n++
	rs := &rangeState{}
	switch u := in.X.Type().Underlying().(type) {
	case *types.Map:
		rs.isMap = true
		rs.m = t.val(in.X)
		rs.mt = u
		rs.heap = fmt.Sprintf("RV_%d", t.n)
		ks := t.vc.sortOf(u.Key())
		t.heapSet(t.cur, rs.heap, Sort(fmt.Sprintf("(Array %s Bool)", ks)), fmt.Sprintf("((as const (Array %s Bool)) false)", ks))
	default:
		rs.str = t.val(in.X)
		rs.idxHeap = fmt.Sprintf("RI_%d", t.n)
		t.heapSet(t.cur, rs.idxHeap, SInt_, "0")
	}
	t.rangeIt[in] = rs
	t.vals[in] = Term{"0", SInt_}
}

func (t *Tr) nextInstr(in *ssa.Next) {
	rs := t.rangeIt[in.Iter]
	tup := in.Type().(*types.Tuple)
	if rs == nil {
		t.havocVal(in)
		return
	}
	if rs.isMap {
		ks := t.vc.sortOf(rs.mt.Key())
		vs := t.vc.sortOf(rs.mt.Elem())
		md, mv := t.mapHeaps(t.cur, rs.mt)
		visited := t.heapGet(t.cur, rs.heap, Sort(fmt.Sprintf("(Array %s Bool)", ks)))
		ok := t.fresh(in.Name()+"_ok", SBool_)
		k := t.fresh(in.Name()+"_k", ks)
		dom := fmt.Sprintf("(select %s %s)", md, rs.m.S)
		// ok: k is an unvisited key of the map; !ok: every key has been visited.
		// (Iteration order is arbitrary; entries inserted during iteration may or may not be visited.)
		t.assume(fmt.Sprintf("(=> %s (and (select %s %s) (not (select %s %s))))", ok, dom, k, visited, k))
		t.n++
		q := fmt.Sprintf("qk_%d", t.n)
		t.assume(fmt.Sprintf("(=> (not %s) (forall ((%s %s)) (! (=> (select %s %s) (select %s %s)) :pattern ((select %s %s)))))", ok, q, ks, dom, q, visited, q, dom, q))
		t.heapSet(t.cur, rs.heap, Sort(fmt.Sprintf("(Array %s Bool)", ks)), fmt.Sprintf("(ite %s (store %s %s true) %s)", ok, visited, k, visited))
		v := Term{t.define(in.Name()+"_v", vs, fmt.Sprintf("(select (select %s %s) %s)", mv, rs.m.S, k)), vs}
		kt := Term{k, ks}
		t.assumeTyped(kt, rs.mt.Key())
		t.assumeTyped(v, rs.mt.Elem())
		t.tuples[in] = []Term{{ok, SBool_}, kt, v}
		return
	}
	// string iteration: index advances by the rune width (1..4); rune value havocked
	_ = tup
	idx := t.heapGet(t.cur, rs.idxHeap, SInt_)
	t.vc.needStr()
	ok := fmt.Sprintf("(< %s (strlen %s))", idx, rs.str.S)
	w := t.fresh(in.Name()+"_w", SInt_)
	t.assume(fmt.Sprintf("(and (<= 1 %s) (<= %s 4) (<= (+ %s %s) (strlen %s)))", w, w, idx, w, rs.str.S))
	r := t.fresh(in.Name()+"_r", SInt_)
	t.assume(fmt.Sprintf("(and (<= 0 %s) (<= %s 1114111) (=> (< (strat %s %s) 128) (and (= %s (strat %s %s)) (= %s 1))))", r, r, rs.str.S, idx, r, rs.str.S, idx, w))
	t.tuples[in] = []Term{{t.define(in.Name()+"_ok", SBool_, ok), SBool_}, {idx, SInt_}, {r, SInt_}}
	t.heapSet(t.cur, rs.idxHeap, SInt_, fmt.Sprintf("(ite %s (+ %s %s) %s)", ok, idx, w, idx))
}

func (t *Tr) selectInstr(in *ssa.Select) {
	t.havocVal(in)
	ts := t.tuples[in]
	n := len(in.States)
	if in.Blocking {
		t.assume(fmt.Sprintf("(and (<= 0 %s) (< %s %d))", ts[0].S, ts[0].S, n))
	} else {
		t.assume(fmt.Sprintf("(and (<= (- 1) %s) (< %s %d))", ts[0].S, ts[0].S, n))
	}
	t.vc.note("select: nondeterministic choice, received values havocked")
	// received values satisfy their channel invariants
	k := 2
	for i, st := range in.States {
		if st.Dir != types.RecvOnly {
			continue
		}
		if k < len(ts) {
			t.chanInv(st.Chan.Type(), ts[k], false, in.Pos(), fmt.Sprintf("(= %s %d)", ts[0].S, i))
		}
		k++
	}
}

func (t *Tr) recvInstr(in *ssa.UnOp) {
	t.havocVal(in)
	if in.CommaOk {
		ts := t.tuples[in]
		t.chanInv(in.X.Type(), ts[0], false, in.Pos(), ts[1].S)
	} else {
		t.chanInv(in.X.Type(), t.vals[in], false, in.Pos(), "")
	}
	t.vc.note("channel receive: value havocked (subject to the channel invariant, if declared)")
}

func (t *Tr) sendInstr(in *ssa.Send) {
	// a send is an effect on ghost state if a `chansend` contract exists for the channel type
	key := "send(" + shortKey(types.TypeString(in.Chan.Type(), nil)) + ")"
	if c, ok := t.w.CS.ByName[key]; ok {
		t.applyContract(c, key, []ssa.Value{in.Chan, in.X}, nil, in.Pos(), nil)
		return
	}
	if !t.chanInv(in.Chan.Type(), t.val(in.X), true, in.Pos(), "") {
		t.vc.note("channel send without contract: no effect modelled")
	}
}

// chanInv checks (send) or assumes (receive) the invariant declared for the
// channel's element type. guard restricts the assumption (select index).
func (t *Tr) chanInv(chTy types.Type, v Term, isSend bool, pos token.Pos, guard string) bool {
	ch, ok := chTy.Underlying().(*types.Chan)
	if !ok {
		return false
	}
	key := shortKey(types.TypeString(ch.Elem(), nil))
	ci, ok := t.w.CS.ChanInvs[key]
	if !ok {
		return false
	}
	env := &Env{t: t, vars: map[string]Val{"v": {T: v, Ty: ch.Elem()}}, cur: t.cur, pkg: ci.Pkg}
	s, err := env.evalClause(ci.E)
	if err != nil {
		efail("%s:%d: chaninv: %v", ci.File, ci.Line, err)
	}
	if isSend {
		i := t.kindCount["chaninv"]
		t.kindCount["chaninv"] = i + 1
		t.checkCl(fmt.Sprintf("chaninv/send#%d", i), s, "value sent satisfies the channel invariant "+ci.Src, pos)
	} else {
		if guard != "" {
			s = Cl{Q: fmt.Sprintf("(=> %s %s)", guard, s.Q), U: fmt.Sprintf("(=> %s %s)", guard, s.U)}
		}
		t.assumeCl(s, false)
		t.vc.Trusted["channel invariant on "+key+" is stable between send and receive (heap-dependent parts)"] = true
	}
	return true
}

func (t *Tr) pseudoMods(in ssa.Instruction, set map[string]bool) (bool, bool) {
	if s, ok := in.(*ssa.Send); ok {
		key := "send(" + shortKey(types.TypeString(s.Chan.Type(), nil)) + ")"
		if c, ok := t.w.CS.ByName[key]; ok {
			return t.contractMods(c, set)
		}
	}
	return false, false
}

func (t *Tr) runDefers() {
	// run deferred calls in reverse order, each guarded by whether its Defer executed
	for i := len(t.defers) - 1; i >= 0; i-- {
		d := t.defers[i]
		r, ok := t.reach[d.block]
		if !ok {
			r, ok = t.outReach[d.block]
		}
		if !ok {
			if d.block == t.curBlock {
				r = t.curReach
			} else {
				continue
			}
		}
		key := t.calleeKey(d.instr.Common())
		if t.isNoEffect(key) {
			continue
		}
		// conditional execution: translate the call on a copy and merge
		before := t.cur.clone()
		saveReach := t.curReach
		t.curReach = t.define("defer_reach", SBool_, mkAnd(saveReach, r))
		t.call(nil, d.instr.Common(), d.instr)
		after := t.cur
		t.curReach = saveReach
		if r == "true" || r == saveReach {
			continue
		}
		// merge: heaps differ only where the call wrote
		merged := before.clone()
		if after.gen != before.gen {
			t.genCount++
			merged.gen = t.genCount
			merged.h = map[string]string{}
			for n, s := range t.vc.heapSort {
				a, b := t.heapGet(after, n, s), t.heapGet(before, n, s)
				if a == b {
					merged.h[n] = a
				} else {
					merged.h[n] = t.define(n, s, fmt.Sprintf("(ite %s %s %s)", r, a, b))
				}
			}
		} else {
			for n, a := range after.h {
				s := t.vc.heapSort[n]
				b := t.heapGet(before, n, s)
				if a != b {
					merged.h[n] = t.define(n, s, fmt.Sprintf("(ite %s %s %s)", r, a, b))
				}
			}
		}
		t.cur = merged
	}
}

func (t *Tr) isNoEffect(key string) bool {
	if _, has := t.w.CS.ByName[key]; has {
		return false // under contract (lock depth accounting): run it
	}
	if strings.HasSuffix(key, ".Unlock") || strings.HasSuffix(key, ".RUnlock") {
		return true
	}
	return false
}

// roGlobalVal: the (constant) value of a read-only global.
func (t *Tr) roGlobalVal(key string, ty types.Type) Term {
	s := t.vc.sortOf(ty)
	name := "gconst_" + mangle(shortKey(key))
	if !t.vc.funSeen[name] {
		t.vc.declFun(name, fmt.Sprintf("(declare-const %s %s)", name, s))
		if f := t.vc.typeFact(Term{name, s}, ty); f != "" {
			t.vc.FunDecl = append(t.vc.FunDecl, fmt.Sprintf("(assert %s)", f))
		}
		// it was allocated before the function started
		switch ty.Underlying().(type) {
		case *types.Pointer, *types.Map, *types.Chan:
			t.assumeRaw(fmt.Sprintf("(< %s %s)", name, t.next(t.entry0())))
		case *types.Slice:
			t.assumeRaw(fmt.Sprintf("(< (s-base %s) %s)", name, t.next(t.entry0())))
		case *types.Interface:
			t.assumeRaw(fmt.Sprintf("(< (i-val %s) %s)", name, t.next(t.entry0())))
		}
	}
	return Term{name, s}
}

func (t *Tr) entry0() *State {
	if t.entry != nil {
		return t.entry
	}
	return t.cur
}
