package main

// Contract files: comment-only Go files (`zz_contracts_verif.go`, build tag
// verif) in /repo and trusted specs for dependencies in /verif/specs/*.spec.
// Every line of interest starts with `//@` (or gofmt's `// @`).

import (
	"bufio"
	"fmt"
	"os"
	"path/filepath"
	"regexp"
	"sort"
	"strconv"
	"strings"
)

type Clause struct {
	Src  string
	E    SExpr
	File string
	Line int
}

type LoopContract struct {
	Invariants []Clause
	Decreases  *Clause
	// ghost assignments performed at the end of every iteration (before the
	// invariants are re-established): explicit witnesses for the invariants
	GhostSets []GhostSet
}

type Contract struct {
	Names      []string // function keys this block applies to
	Pkg        string   // package path the file belongs to ("" for spec files)
	File       string
	Line       int
	Props      []string
	Trusted    bool
	Pure       bool // no heap effects at all
	Requires   []Clause
	Ensures    []Clause
	Modifies   []Clause // location expressions; Src=="*" means everything
	HasMod     bool
	Loops      map[int]*LoopContract
	Implements string // abstract contract name
	Satisfies  map[string]string // param name -> abstract contract name
	CallAs     map[string]string // callee key -> abstract contract used for that callee inside this function (trusted)
	Params     []SParam // for abstract contracts / trusted specs: explicit parameter names
	Results    []SParam
	Assigns    []AssignClause
	GhostSets  []GhostSet
	Preserves  []Clause // with `modifies *`: field heaps (Type.field) the callee never writes
	Lemma      bool
	Fresh      []string // result names that are freshly allocated
	NoPanic    bool     // trusted: function does not panic (default for trusted)
	Opaque     bool     // for spec: results are a deterministic function of args (uninterpreted)
}

// AssignClause: `assigns dst[i] for i in lo .. hi := val` - after the call,
// dst[i] == val for lo <= i < hi and every other element of dst's backing
// array is unchanged.
type AssignClause struct {
	Dst, Lo, Hi, Val SExpr
	Var             string
	Src             string
	File            string
	Line            int
}

// GhostSet: `ghostset G(args) := expr` - ghost assignment performed when the
// function returns (ghost state is a function of the program state; only this
// function's returns update that location). For callers it is a modifies of
// G(args) plus the postcondition G(args) == expr.
type GhostSet struct {
	Target *SCall
	Val    SExpr
	Src    string
	File   string
	Line   int
}

type GhostDecl struct {
	Name   string
	Params []*SType
	Result *SType
	IsVar  bool // mutable ghost map (part of state)
	Internal bool // accounting state that only first-party code under contract can change (`ghost ivar`)
	Pkg    string
}

type DefineDecl struct {
	Name   string
	Params []SParam
	Result *SType
	Body   SExpr
	Src    string
	Pkg    string
	Rec    bool
}

type ChanInv struct {
	Clause
	Pkg string
	Ty  string
}

type AxiomDecl struct {
	Clause
	Pkg string
}

type GlobalInv struct {
	Clause
	Pkg string
}

type Contracts struct {
	ByName    map[string]*Contract // key: qualified function key
	Abstract  map[string]*Contract
	Ghosts    map[string]*GhostDecl
	Defines   map[string]*DefineDecl
	DefOrder  []string
	Axioms    []AxiomDecl
	GlobInvs  []GlobalInv
	PureGlobs []string // patterns of effect-free functions
	Preds     map[string]*DefineDecl // state-dependent predicates, macro-expanded at use
	ChanInvs  map[string]*ChanInv    // channel element type -> invariant on sent values
	AllocInvs map[string]*ChanInv    // type -> fact about a freshly zero-allocated value (self = its address)
	Files     []string
	All       []*Contract
}

var assignsRe = regexp.MustCompile(`^(.+)\[(\w+)\]\s+for\s+(\w+)\s+in\s+(.+?)\s+\.\.\s+(.+?)\s+:=\s+(.+)$`)

var atLine = regexp.MustCompile(`^\s*//\s?@\s?(.*)$`)

func newContracts() *Contracts {
	return &Contracts{ByName: map[string]*Contract{}, Abstract: map[string]*Contract{}, Ghosts: map[string]*GhostDecl{}, Defines: map[string]*DefineDecl{}, Preds: map[string]*DefineDecl{}, ChanInvs: map[string]*ChanInv{}, AllocInvs: map[string]*ChanInv{}}
}

func (cs *Contracts) loadFile(path, pkgPath, pkgName string) error {
	f, err := os.Open(path)
	if err != nil {
		return err
	}
	defer f.Close()
	cs.Files = append(cs.Files, path)
	sc := bufio.NewScanner(f)
	sc.Buffer(make([]byte, 1<<20), 1<<20)
	var cur *Contract
	var curLoop *LoopContract
	ln := 0
	mk := func(src string) (Clause, error) {
		e, err := parseSpecExpr(src)
		if err != nil {
			return Clause{}, fmt.Errorf("%s:%d: %v", path, ln, err)
		}
		return Clause{Src: src, E: e, File: path, Line: ln}, nil
	}
	var pendingKey string
	var pending string
	flush := func() error { return nil }
	_ = flush
	lines := []struct {
		s  string
		ln int
	}{}
	for sc.Scan() {
		ln++
		m := atLine.FindStringSubmatch(sc.Text())
		if m == nil {
			continue
		}
		s := strings.TrimRight(m[1], " \t")
		// continuation: line starting with `|` continues the previous clause
		ts := strings.TrimSpace(s)
		if strings.HasPrefix(ts, "| ") && len(lines) > 0 {
			lines[len(lines)-1].s += " " + strings.TrimSpace(ts[2:])
			continue
		}
		lines = append(lines, struct {
			s  string
			ln int
		}{s, ln})
	}
	_ = pendingKey
	_ = pending
	for _, l := range lines {
		ln = l.ln
		s := strings.TrimSpace(l.s)
		if s == "" {
			continue
		}
		// strip trailing `// comment`
		if i := strings.Index(s, " // "); i >= 0 {
			s = strings.TrimSpace(s[:i])
		}
		word, rest := s, ""
		if i := strings.IndexAny(s, " \t"); i >= 0 {
			word, rest = s[:i], strings.TrimSpace(s[i+1:])
		}
		switch word {
		case "func", "lemma", "contract":
			cur = &Contract{Pkg: pkgPath, File: path, Line: ln, Loops: map[int]*LoopContract{}, Satisfies: map[string]string{}, CallAs: map[string]string{}}
			curLoop = nil
			cs.All = append(cs.All, cur)
			if word == "contract" {
				// contract name(p T, ...) (r U, ...)
				name, params, results, err := parseSig(rest)
				if err != nil {
					return fmt.Errorf("%s:%d: %v", path, ln, err)
				}
				cur.Names = []string{name}
				cur.Params, cur.Results = params, results
				cs.Abstract[name] = cur
				continue
			}
			if word == "lemma" {
				cur.Lemma = true
			}
			// optional explicit signature for trusted specs: func NAME(p T,...) (r U)
			names := rest
			if i := strings.Index(rest, " as "); i >= 0 {
				names = rest[:i]
				_, params, results, err := parseSig("x" + strings.TrimSpace(rest[i+4:]))
				if err != nil {
					return fmt.Errorf("%s:%d: %v", path, ln, err)
				}
				cur.Params, cur.Results = params, results
			}
			nameList := strings.Split(names, ",")
			if strings.HasPrefix(strings.TrimSpace(names), "type:") {
				nameList = []string{names} // a function type: its commas are not separators
			}
			for _, n := range nameList {
				n = strings.TrimSpace(n)
				if n == "" {
					continue
				}
				key := qualifyFuncKey(n, pkgName)
				if n == "init" && pkgPath != "" {
					key = pkgPath + ".init" // package names repeat (header, header): the initialiser is keyed by path
				}
				cur.Names = append(cur.Names, key)
				if old, ok := cs.ByName[key]; ok {
					return fmt.Errorf("%s:%d: duplicate contract for %s (first at %s:%d)", path, ln, key, old.File, old.Line)
				}
				cs.ByName[key] = cur
			}
		case "property":
			if cur == nil {
				return fmt.Errorf("%s:%d: property outside func", path, ln)
			}
			cur.Props = append(cur.Props, strings.Fields(rest)...)
		case "trusted":
			cur.Trusted = true
		case "pure":
			if cur != nil && rest == "" {
				cur.Pure = true
			} else {
				cs.PureGlobs = append(cs.PureGlobs, strings.Fields(rest)...)
			}
		case "opaque":
			cur.Opaque = true
		case "fresh":
			cur.Fresh = append(cur.Fresh, strings.Fields(strings.ReplaceAll(rest, ",", " "))...)
		case "implements":
			cur.Implements = rest
		case "callas":
			// callas CALLEE CONTRACT: inside this function, calls of CALLEE are
			// specified by the named abstract contract (a trusted, local spec)
			fs := strings.Fields(rest)
			if len(fs) != 2 || cur == nil {
				return fmt.Errorf("%s:%d: callas CALLEE CONTRACT", path, ln)
			}
			cur.CallAs[qualifyFuncKey(fs[0], pkgName)] = fs[1]
		case "satisfies":
			// satisfies param contractName
			fs := strings.Fields(rest)
			if len(fs) != 2 {
				return fmt.Errorf("%s:%d: satisfies PARAM CONTRACT", path, ln)
			}
			cur.Satisfies[fs[0]] = fs[1]
		case "requires", "ensures", "invariant", "decreases":
			if cur == nil {
				return fmt.Errorf("%s:%d: %s outside func", path, ln, word)
			}
			c, err := mk(rest)
			if err != nil {
				return err
			}
			switch word {
			case "requires":
				cur.Requires = append(cur.Requires, c)
			case "ensures":
				cur.Ensures = append(cur.Ensures, c)
			case "invariant":
				if curLoop == nil {
					return fmt.Errorf("%s:%d: invariant outside loop", path, ln)
				}
				curLoop.Invariants = append(curLoop.Invariants, c)
			case "decreases":
				if curLoop == nil {
					return fmt.Errorf("%s:%d: decreases outside loop", path, ln)
				}
				cc := c
				curLoop.Decreases = &cc
			}
		case "modifies":
			cur.HasMod = true
			for _, part := range splitTop(rest) {
				part = strings.TrimSpace(part)
				if part == "" {
					continue
				}
				if part == "*" || part == "**" || part == "nothing" {
					if part != "nothing" {
						cur.Modifies = append(cur.Modifies, Clause{Src: part, File: path, Line: ln})
					}
					continue
				}
				if strings.HasPrefix(part, "pkg(") || strings.HasPrefix(part, "elems(") || strings.HasPrefix(part, "cells(") {
					// whole-heap items: pkg(name) = every heap of that package's types; elems(T) = every []T/[N]T element
					cur.Modifies = append(cur.Modifies, Clause{Src: part, File: path, Line: ln})
					continue
				}
				src := part
				star := false
				if strings.HasSuffix(part, "[*]") {
					src = strings.TrimSuffix(part, "[*]")
					star = true
				}
				c, err := mk(src)
				if err != nil {
					return err
				}
				if star {
					c.Src = src + "[*]"
				}
				cur.Modifies = append(cur.Modifies, c)
			}
		case "assigns":
			m := assignsRe.FindStringSubmatch(rest)
			if m == nil {
				return fmt.Errorf("%s:%d: assigns DST[i] for i in LO .. HI := EXPR", path, ln)
			}
			if m[2] != m[3] {
				return fmt.Errorf("%s:%d: assigns: index variable mismatch", path, ln)
			}
			ac := AssignClause{Var: m[2], Src: rest, File: path, Line: ln}
			var err error
			if ac.Dst, err = parseSpecExpr(m[1]); err != nil {
				return fmt.Errorf("%s:%d: %v", path, ln, err)
			}
			if ac.Lo, err = parseSpecExpr(m[4]); err != nil {
				return fmt.Errorf("%s:%d: %v", path, ln, err)
			}
			if ac.Hi, err = parseSpecExpr(m[5]); err != nil {
				return fmt.Errorf("%s:%d: %v", path, ln, err)
			}
			if ac.Val, err = parseSpecExpr(m[6]); err != nil {
				return fmt.Errorf("%s:%d: %v", path, ln, err)
			}
			cur.Assigns = append(cur.Assigns, ac)
			cur.HasMod = true
			dc, err := mk(m[1])
			if err != nil {
				return err
			}
			dc.Src = m[1] + "[*]"
			dc.File = "assigns"
			cur.Modifies = append(cur.Modifies, dc)
		case "ghostset":
			i := strings.Index(rest, " := ")
			if i < 0 {
				return fmt.Errorf("%s:%d: ghostset G(args) := EXPR", path, ln)
			}
			te, err := parseSpecExpr(rest[:i])
			if err != nil {
				return fmt.Errorf("%s:%d: %v", path, ln, err)
			}
			tc, ok := te.(*SCall)
			if !ok {
				return fmt.Errorf("%s:%d: ghostset target must be a ghost var application", path, ln)
			}
			ve, err := parseSpecExpr(rest[i+4:])
			if err != nil {
				return fmt.Errorf("%s:%d: %v", path, ln, err)
			}
			if curLoop != nil {
				curLoop.GhostSets = append(curLoop.GhostSets, GhostSet{Target: tc, Val: ve, Src: rest, File: path, Line: ln})
				continue
			}
			cur.GhostSets = append(cur.GhostSets, GhostSet{Target: tc, Val: ve, Src: rest, File: path, Line: ln})
			cur.HasMod = true
			cur.Modifies = append(cur.Modifies, Clause{Src: rest[:i], E: te, File: path, Line: ln})
			cur.Ensures = append(cur.Ensures, Clause{Src: rest[:i] + " == " + rest[i+4:] + "   (ghostset)", E: &SBinary{"==", te, ve}, File: path, Line: ln})
		case "preserves":
			for _, part := range splitTop(strings.ReplaceAll(rest, " ", ",")) {
				part = strings.TrimSpace(part)
				if part == "" {
					continue
				}
				if strings.HasSuffix(part, ".*") || strings.HasPrefix(part, "maps(") {
					cur.Preserves = append(cur.Preserves, Clause{Src: part, File: path, Line: ln})
					continue
				}
				c, err := mk(part)
				if err != nil {
					return err
				}
				cur.Preserves = append(cur.Preserves, c)
			}
		case "loop":
			n, err := strconv.Atoi(strings.TrimSuffix(rest, ":"))
			if err != nil {
				return fmt.Errorf("%s:%d: loop N:", path, ln)
			}
			curLoop = &LoopContract{}
			cur.Loops[n] = curLoop
		case "ghost":
			// ghost var name(T,...) U   |  ghost fn name(T,...) U
			fs := strings.SplitN(rest, " ", 2)
			if len(fs) != 2 {
				return fmt.Errorf("%s:%d: bad ghost decl", path, ln)
			}
			g, err := parseGhost(fs[1])
			if err != nil {
				return fmt.Errorf("%s:%d: %v", path, ln, err)
			}
			g.IsVar = fs[0] == "var" || fs[0] == "ivar"
			g.Internal = fs[0] == "ivar"
			g.Pkg = pkgPath
			if _, dup := cs.Ghosts[g.Name]; dup {
				return fmt.Errorf("%s:%d: duplicate ghost %s", path, ln, g.Name)
			}
			cs.Ghosts[g.Name] = g
		case "define", "definerec":
			// define name(x T, ...) U = expr
			i := strings.Index(rest, " = ")
			if i < 0 {
				return fmt.Errorf("%s:%d: define needs ' = '", path, ln)
			}
			name, params, results, err := parseSig(rest[:i])
			if err != nil {
				return fmt.Errorf("%s:%d: %v", path, ln, err)
			}
			if len(results) != 1 {
				return fmt.Errorf("%s:%d: define needs one result type", path, ln)
			}
			body, err := parseSpecExpr(rest[i+3:])
			if err != nil {
				return fmt.Errorf("%s:%d: %v", path, ln, err)
			}
			if _, dup := cs.Defines[name]; dup {
				return fmt.Errorf("%s:%d: duplicate define %s", path, ln, name)
			}
			cs.Defines[name] = &DefineDecl{Name: name, Params: params, Result: results[0].Ty, Body: body, Src: rest, Pkg: pkgPath, Rec: word == "definerec"}
			cs.DefOrder = append(cs.DefOrder, name)
		case "pred":
			i := strings.Index(rest, " = ")
			if i < 0 {
				return fmt.Errorf("%s:%d: pred needs ' = '", path, ln)
			}
			name, params, _, err := parseSig(rest[:i])
			if err != nil {
				return fmt.Errorf("%s:%d: %v", path, ln, err)
			}
			body, err := parseSpecExpr(rest[i+3:])
			if err != nil {
				return fmt.Errorf("%s:%d: %v", path, ln, err)
			}
			cs.Preds[name] = &DefineDecl{Name: name, Params: params, Body: body, Src: rest, Pkg: pkgPath}
		case "chaninv":
			// chaninv ELEMTYPE :: expr over v
			i := strings.Index(rest, " :: ")
			if i < 0 {
				return fmt.Errorf("%s:%d: chaninv TYPE :: EXPR", path, ln)
			}
			c, err := mk(rest[i+4:])
			if err != nil {
				return err
			}
			ty := strings.TrimSpace(rest[:i])
			if pkgName != "" && !strings.Contains(ty, ".") {
				ty = pkgName + "." + ty
			}
			cs.ChanInvs[ty] = &ChanInv{Clause: c, Pkg: pkgPath, Ty: ty}
		case "allocinv":
			i := strings.Index(rest, " :: ")
			if i < 0 {
				return fmt.Errorf("%s:%d: allocinv TYPE :: EXPR", path, ln)
			}
			c, err := mk(rest[i+4:])
			if err != nil {
				return err
			}
			ty := strings.TrimSpace(rest[:i])
			if pkgName != "" && !strings.Contains(ty, ".") {
				ty = pkgName + "." + ty
			}
			cs.AllocInvs[ty] = &ChanInv{Clause: c, Pkg: pkgPath, Ty: ty}
		case "axiom":
			c, err := mk(rest)
			if err != nil {
				return err
			}
			cs.Axioms = append(cs.Axioms, AxiomDecl{c, pkgPath})
		case "globalinv":
			c, err := mk(rest)
			if err != nil {
				return err
			}
			cs.GlobInvs = append(cs.GlobInvs, GlobalInv{c, pkgPath})
		default:
			return fmt.Errorf("%s:%d: unknown directive %q", path, ln, word)
		}
	}
	return nil
}

// splitTop splits on commas not nested in parens/brackets.
func splitTop(s string) []string {
	var out []string
	depth := 0
	last := 0
	for i, c := range s {
		switch c {
		case '(', '[':
			depth++
		case ')', ']':
			depth--
		case ',':
			if depth == 0 {
				out = append(out, s[last:i])
				last = i + 1
			}
		}
	}
	out = append(out, s[last:])
	return out
}

// parseSig parses `name(p T, q U) R` or `name(p T) (r R, e error)`.
func parseSig(s string) (string, []SParam, []SParam, error) {
	s = strings.TrimSpace(s)
	i := strings.Index(s, "(")
	if i < 0 {
		return "", nil, nil, fmt.Errorf("bad signature %q", s)
	}
	name := strings.TrimSpace(s[:i])
	depth := 0
	j := i
	for ; j < len(s); j++ {
		if s[j] == '(' {
			depth++
		} else if s[j] == ')' {
			depth--
			if depth == 0 {
				break
			}
		}
	}
	if j >= len(s) {
		return "", nil, nil, fmt.Errorf("bad signature %q", s)
	}
	params, err := parseParamList(s[i+1:j], true)
	if err != nil {
		return "", nil, nil, err
	}
	rest := strings.TrimSpace(s[j+1:])
	var results []SParam
	if rest != "" {
		if strings.HasPrefix(rest, "(") && strings.HasSuffix(rest, ")") {
			results, err = parseParamList(rest[1:len(rest)-1], true)
			if err != nil {
				return "", nil, nil, err
			}
		} else {
			t, err := parseTypeString(rest)
			if err != nil {
				return "", nil, nil, err
			}
			results = []SParam{{"result", t}}
		}
	}
	return name, params, results, nil
}

func parseParamList(s string, named bool) ([]SParam, error) {
	var out []SParam
	for _, part := range splitTop(s) {
		part = strings.TrimSpace(part)
		if part == "" {
			continue
		}
		i := strings.IndexAny(part, " \t")
		if i < 0 {
			return nil, fmt.Errorf("parameter %q needs a name and a type", part)
		}
		t, err := parseTypeString(strings.TrimSpace(part[i+1:]))
		if err != nil {
			return nil, err
		}
		out = append(out, SParam{part[:i], t})
	}
	return out, nil
}

func parseGhost(s string) (*GhostDecl, error) {
	i := strings.Index(s, "(")
	j := strings.LastIndex(s, ")")
	if i < 0 || j < i {
		return nil, fmt.Errorf("bad ghost decl %q", s)
	}
	g := &GhostDecl{Name: strings.TrimSpace(s[:i])}
	for _, part := range splitTop(s[i+1 : j]) {
		part = strings.TrimSpace(part)
		if part == "" {
			continue
		}
		t, err := parseTypeString(part)
		if err != nil {
			return nil, err
		}
		g.Params = append(g.Params, t)
	}
	t, err := parseTypeString(strings.TrimSpace(s[j+1:]))
	if err != nil {
		return nil, err
	}
	g.Result = t
	return g, nil
}

// qualifyFuncKey turns an in-package key (`readUntilCRLF`, `(*Conn).Read`)
// into the global form (`proxyproto.readUntilCRLF`, `(*proxyproto.Conn).Read`).
// Keys that already contain a package qualifier are left alone.
func qualifyFuncKey(n, pkgName string) string {
	if pkgName == "" {
		return n
	}
	if strings.HasPrefix(n, "(") {
		// (*T).m or (T).m
		end := strings.Index(n, ")")
		recv := n[1:end]
		star := ""
		if strings.HasPrefix(recv, "*") {
			star = "*"
			recv = recv[1:]
		}
		if !strings.Contains(recv, ".") {
			recv = pkgName + "." + recv
		}
		return "(" + star + recv + ")" + n[end+1:]
	}
	if !strings.Contains(n, ".") {
		return pkgName + "." + n
	}
	return n
}

func loadSpecDir(cs *Contracts, dir string) error {
	ents, err := filepath.Glob(filepath.Join(dir, "*.spec"))
	if err != nil {
		return err
	}
	sort.Strings(ents)
	for _, e := range ents {
		if err := cs.loadFile(e, "", ""); err != nil {
			return err
		}
	}
	return nil
}
