package main

import (
	"regexp"
	"fmt"
	"go/token"
	"go/types"
	"path"
	"strings"

	"golang.org/x/tools/go/ssa"
)

// calleeKey returns the contract key of a call's target ("" if dynamic).
func (t *Tr) calleeKey(c *ssa.CallCommon) string {
	if c.IsInvoke() {
		return methodKey(c.Method)
	}
	switch f := c.Value.(type) {
	case *ssa.Function:
		return funcKey(f)
	case *ssa.MakeClosure:
		return funcKey(f.Fn.(*ssa.Function))
	case *ssa.Builtin:
		return "builtin." + f.Name()
	}
	return ""
}

func (t *Tr) staticCallee(c *ssa.CallCommon) *ssa.Function {
	switch f := c.Value.(type) {
	case *ssa.Function:
		return f
	case *ssa.MakeClosure:
		return f.Fn.(*ssa.Function)
	}
	return nil
}

func matchGlob(pat, s string) bool {
	if pat == s {
		return true
	}
	if strings.Contains(pat, "*") {
		// path.Match treats '/' specially; keys have none after shortening except in generics
		ok, err := path.Match(strings.ReplaceAll(pat, "(*", "(\\*"), s)
		return err == nil && ok
	}
	return false
}

func (t *Tr) isPureGlob(key string) bool {
	for _, p := range t.w.CS.PureGlobs {
		if matchGlob(p, key) {
			return true
		}
	}
	// instance of a generic function: the declaration names the generic
	if i := strings.Index(key, "["); i > 0 && !strings.HasPrefix(key, "(") {
		return t.isPureGlob(key[:i])
	}
	return false
}

// findContract looks up the contract for a call.
func (t *Tr) findContract(c *ssa.CallCommon) (*Contract, string) {
	key := t.calleeKey(c)
	if key == "" {
		// call through a function value
		if p, ok := c.Value.(*ssa.Parameter); ok && t.c != nil {
			if an, ok := t.c.Satisfies[p.Name()]; ok {
				if ac := t.w.CS.Abstract[an]; ac != nil {
					return ac, "abstract:" + an
				}
			}
		}
		tk := "type:" + shortKey(types.TypeString(c.Value.Type(), nil))
		if ct, ok := t.w.CS.ByName[tk]; ok {
			return ct, tk
		}
		return nil, ""
	}
	if t.c != nil {
		if an, ok := t.c.CallAs[key]; ok {
			if ac := t.w.CS.Abstract[an]; ac != nil {
				t.vc.Trusted["calls of "+key+" in this function are specified by the local contract "+an] = true
				return ac, "abstract:" + an
			}
		}
	}
	if ct, ok := t.w.CS.ByName[key]; ok {
		return ct, key
	}
	// generic instantiation: strip type arguments
	if i := strings.Index(key, "["); i >= 0 {
		if ct, ok := t.w.CS.ByName[key[:i]]; ok {
			return ct, key[:i]
		}
		// method of a generic type: (*pkg.T[A, B]).m[A B] -> (*pkg.T).m
		if k := typeArgs.ReplaceAllString(key, ""); k != key {
			if ct, ok := t.w.CS.ByName[k]; ok {
				return ct, k
			}
		}
	}
	return nil, key
}

var typeArgs = regexp.MustCompile(`\[[^\[\]]*\]`)

func (t *Tr) call(_ interface{}, c *ssa.CallCommon, instr ssa.Instruction) {
	// does this call possibly run one of this function's closures?
	t.closureCall = false
	if _, ok := c.Value.(*ssa.MakeClosure); ok {
		t.closureCall = true
	}
	if _, isFn := c.Value.Type().Underlying().(*types.Signature); isFn && !c.IsInvoke() {
		if _, static := c.Value.(*ssa.Function); !static {
			t.closureCall = true
		}
	}
	for _, a := range c.Args {
		if _, isFn := a.Type().Underlying().(*types.Signature); isFn {
			t.closureCall = true
		}
	}
	defer func() { t.closureCall = false }()
	var res ssa.Value
	if v, ok := instr.(*ssa.Call); ok {
		res = v
	}
	if b, ok := c.Value.(*ssa.Builtin); ok {
		t.builtin(b, c, res, instr.Pos())
		return
	}
	if c.IsInvoke() {
		x := t.val(c.Value)
		t.safety("nil", fmt.Sprintf("(not (= (i-tag %s) 0))", x.S), "method call on nil interface", instr.Pos())
	}
	ct, key := t.findContract(c)
	var args []ssa.Value
	if c.IsInvoke() {
		args = append(args, c.Value)
	}
	args = append(args, c.Args...)
	if mc, ok := c.Value.(*ssa.MakeClosure); ok && ct != nil {
		// closure call: free variables are extra leading context; contracts of closures name them directly
		_ = mc
	}
	if ct != nil {
		t.applyContract(ct, key, args, res, instr.Pos(), c)
		return
	}
	if key != "" && t.isPureGlob(key) {
		if res != nil {
			t.havocVal(res)
		}
		t.vc.Trusted["pure "+key] = true
		return
	}
	// call through a function value: if it is one of the package's pure functions
	// under contract with this signature, that function's contract applies
	if key == "" && !c.IsInvoke() {
		if t.funcValueDispatch(c, args, res) {
			return
		}
	}
	// unmodelled call: everything may change
	if key == "" {
		key = "dynamic call " + c.Value.Name() + " : " + shortKey(c.Value.Type().String())
	}
	t.vc.Unmod[key]++
	// a library function (no first-party code behind it) cannot reach the
	// first-party accounting ghosts; everything else may change
	if t.isLibraryCall(c) {
		t.keepInternal = true
		t.vc.Trusted["library calls without contract do not call back into first-party accounting hooks"] = true
	}
	t.havocAll(t.cur, false)
	t.keepInternal = false
	if res != nil {
		t.havocVal(res)
	}
}

// funcValueDispatch (defunctionalisation): for a call f(args) through a value
// of function type, every first-party pure function g under contract in this
// package with the same signature contributes `f == g ==> ensures_g`; if f is
// none of them the call is unmodelled (everything is havocked on that branch).
func (t *Tr) funcValueDispatch(c *ssa.CallCommon, args []ssa.Value, res ssa.Value) bool {
	sig, ok := c.Value.Type().Underlying().(*types.Signature)
	if !ok {
		return false
	}
	type cand struct {
		fn *ssa.Function
		ct *Contract
	}
	var cands []cand
	for _, ct := range t.w.CS.All {
		if !ct.Pure || ct.Pkg != t.pkg {
			continue
		}
		for _, n := range ct.Names {
			fn := t.w.FuncKeys[n]
			if fn == nil || fn.Signature.Recv() != nil || len(fn.FreeVars) > 0 {
				continue
			}
			if types.Identical(fn.Signature, sig) {
				cands = append(cands, cand{fn, ct})
			}
		}
	}
	if len(cands) == 0 {
		return false
	}
	fv := t.val(c.Value)
	var known []string
	for ci, cd := range cands {
		known = append(known, fmt.Sprintf("(= %s %s)", fv.S, t.val(cd.fn).S))
		// the candidate's preconditions must hold if it is the one being called
		penv := &Env{t: t, vars: map[string]Val{}, cur: t.cur, pkg: cd.ct.Pkg}
		for i, p := range cd.fn.Params {
			if i < len(args) {
				penv.vars[p.Name()] = Val{T: t.val(args[i]), Ty: p.Type()}
			}
		}
		for k, r := range cd.ct.Requires {
			s, err := penv.evalClause(r.E)
			if err != nil {
				continue
			}
			g := fmt.Sprintf("(= %s %s)", fv.S, t.val(cd.fn).S)
			ord := t.kindCount["fncall"]
			t.checkCl(fmt.Sprintf("call@funcvalue#%d/%s/pre#%d", ord, shortKey(cd.fn.Name()), k), Cl{Q: fmt.Sprintf("(=> %s %s)", g, s.Q), U: fmt.Sprintf("(=> %s %s)", g, s.U)}, "precondition "+r.Src+" of "+cd.fn.Name()+" if it is the function called", c.Pos())
			_ = ci
		}
	}
	t.kindCount["fncall"]++
	isKnown := t.define("fknown", SBool_, mkOr(known...))
	// effects: none if f is a known pure function, anything otherwise
	before := t.cur.clone()
	t.vc.Unmod["dynamic call "+c.Value.Name()+" (unless it is one of the package's pure functions under contract)"]++
	t.havocAll(t.cur, false)
	after := t.cur
	merged := before.clone()
	t.genCount++
	merged.gen = t.genCount
	merged.h = map[string]string{}
	for n, s := range t.vc.heapSort {
		a, b := t.heapGet(after, n, s), t.heapGet(before, n, s)
		if a == b {
			merged.h[n] = a
		} else {
			merged.h[n] = t.define(n, s, fmt.Sprintf("(ite %s %s %s)", isKnown, b, a))
		}
	}
	t.cur = merged
	var rts []Term
	if res != nil {
		if _, isTup := res.Type().(*types.Tuple); isTup {
			t.havocVal(res)
			rts = t.tuples[res]
		} else {
			rts = []Term{t.havocVal(res)}
		}
	}
	for _, cd := range cands {
		env := &Env{t: t, vars: map[string]Val{}, cur: t.cur, old: before, pkg: cd.ct.Pkg}
		for i, p := range cd.fn.Params {
			if i < len(args) {
				env.vars[p.Name()] = Val{T: t.val(args[i]), Ty: p.Type()}
			}
		}
		for i, ns := range resultAliases(cd.fn.Signature) {
			if i < len(rts) {
				for k, nm := range ns {
					if _, isParam := env.vars[nm]; isParam && k > 0 {
						continue
					}
					env.vars[nm] = Val{T: rts[i], Ty: cd.fn.Signature.Results().At(i).Type()}
				}
			}
		}
		guard := fmt.Sprintf("(= %s %s)", fv.S, t.val(cd.fn).S)
		for _, en := range cd.ct.Ensures {
			s, err := env.evalClause(en.E)
			if err != nil {
				continue
			}
			t.assumeCl(Cl{Q: fmt.Sprintf("(=> %s %s)", guard, s.Q), U: fmt.Sprintf("(=> %s %s)", guard, s.U)}, false)
		}
	}
	return true
}

// isLibraryCall: the callee is a function, method or interface method declared
// outside the repository (and is not a call through a function value).
func (t *Tr) isLibraryCall(c *ssa.CallCommon) bool {
	var pkg *types.Package
	if c.IsInvoke() {
		pkg = c.Method.Pkg()
		// an interface declared in a library can still be implemented by first-party code,
		// except for the standard closing/reading/writing interfaces of values created by libraries
		if pkg == nil {
			return false
		}
	} else if f := t.staticCallee(c); f != nil {
		if f.Pkg != nil {
			pkg = f.Pkg.Pkg
		} else if f.Origin() != nil && f.Origin().Pkg != nil {
			pkg = f.Origin().Pkg.Pkg
		}
	}
	return pkg != nil && !strings.HasPrefix(pkg.Path(), "github.com/saucelabs/forwarder")
}

// copyIn/copyOut: an argument that is the address of a scalar field or element
// is passed as a cell holding a copy (sound when the callee does not also
// reach the field through its owner during the call).
func (t *Tr) copyIn(args []ssa.Value) []*Addr {
	var out []*Addr
	for _, a := range args {
		ad, ok := t.addrs[a]
		if !ok || (ad.Kind != aField && ad.Kind != aElem) {
			out = append(out, nil)
			continue
		}
		ty := ad.storedType()
		cell := &Addr{Kind: aCell, Heap: cellHeapName(ty), Obj: t.val(a).S, Ty: ty}
		if s := t.vc.sortOf(ty); s == SInt_ || s == SBool_ || s == SSlc || s == SIfc {
			// remember what the (virtual) cell held so it can be restored after the call
			prev := t.load(t.cur, cell)
			cell.Idx = t.define("cellprev", prev.Sort, prev.S) // (Idx is unused for cells: carries the saved content)
			t.store(t.cur, cell, t.load(t.cur, ad).S)
			out = append(out, cell)
			t.vc.Trusted["interior pointer passed by copy-in/copy-out (no aliasing through the owner during the call)"] = true
		} else {
			out = append(out, nil)
		}
	}
	return out
}

func (t *Tr) copyOut(args []ssa.Value, cells []*Addr) {
	for i, a := range args {
		if i >= len(cells) || cells[i] == nil {
			continue
		}
		ad := t.addrs[a]
		t.store(t.cur, ad, t.load(t.cur, cells[i]).S)
		t.store(t.cur, cells[i], cells[i].Idx)
	}
}

// contractParams returns the names and types the contract uses for the
// callee's parameters (receiver first) and results.
func (t *Tr) contractParams(ct *Contract, c *ssa.CallCommon, nargs int) (pn []string, pt []types.Type, rn [][]string, rt []types.Type) {
	if len(ct.Params) > 0 || len(ct.Results) > 0 {
		for _, p := range ct.Params {
			ty, err := t.w.resolveType(p.Ty, ct.Pkg)
			if err != nil {
				efail("%s:%d: %v", ct.File, ct.Line, err)
			}
			pn = append(pn, p.Name)
			pt = append(pt, ty)
		}
		for _, p := range ct.Results {
			ty, err := t.w.resolveType(p.Ty, ct.Pkg)
			if err != nil {
				efail("%s:%d: %v", ct.File, ct.Line, err)
			}
			rn = append(rn, []string{p.Name})
			rt = append(rt, ty)
		}
		return
	}
	if c == nil {
		return
	}
	sig := c.Signature()
	if c.IsInvoke() {
		pn = append(pn, "recv")
		pt = append(pt, c.Value.Type())
	} else if sig.Recv() != nil {
		n := sig.Recv().Name()
		if n == "" || n == "_" {
			n = "recv"
		}
		pn = append(pn, n)
		pt = append(pt, sig.Recv().Type())
	}
	if f := t.staticCallee(c); f != nil {
		// closures: free variables are not arguments
		for _, p := range f.Params {
			if sig.Recv() != nil && len(pn) == 1 && p == f.Params[0] {
				continue
			}
			pn = append(pn, p.Name())
			pt = append(pt, p.Type())
		}
	} else {
		for i := 0; i < sig.Params().Len(); i++ {
			n := sig.Params().At(i).Name()
			if n == "" || n == "_" {
				n = fmt.Sprintf("arg%d", i)
			}
			pn = append(pn, n)
			pt = append(pt, sig.Params().At(i).Type())
		}
	}
	rn = resultAliases(sig)
	for i := 0; i < sig.Results().Len(); i++ {
		rt = append(rt, sig.Results().At(i).Type())
	}
	return
}

func (t *Tr) applyContract(ct *Contract, key string, args []ssa.Value, res ssa.Value, pos token.Pos, c *ssa.CallCommon) {
	ord := t.kindCount["call@"+key]
	t.kindCount["call@"+key] = ord + 1
	pn, pt, rn, rt := t.contractParams(ct, c, len(args))
	if ct.Trusted {
		t.vc.Trusted["contract "+key] = true
	}
	env := &Env{t: t, vars: map[string]Val{}, cur: t.cur, old: nil, pkg: ct.Pkg}
	for i, a := range args {
		if i >= len(pn) {
			break
		}
		v := t.val(a)
		ty := pt[i]
		if v.Sort != t.vc.sortOf(ty) {
			// e.g. concrete value passed where the spec declares an interface
			ty = a.Type()
		}
		pv := Val{T: v, Ty: ty}
		if ad, ok := t.addrs[a]; ok && (ad.Kind == aField || ad.Kind == aElem) {
			// interior pointer: `*p` in the callee's contract denotes the caller's location itself
			pv.Ptr = ad
		}
		env.vars[pn[i]] = pv
	}
	// call through a function value: `self` is that value
	if c != nil && strings.HasPrefix(key, "type:") {
		env.vars["self"] = Val{T: t.val(c.Value), Ty: c.Value.Type()}
	}
	// closure call: the callee's free variables denote the captured cells' current contents
	if c != nil {
		if mc, ok := c.Value.(*ssa.MakeClosure); ok {
			fn := mc.Fn.(*ssa.Function)
			for i, fv := range fn.FreeVars {
				if i >= len(mc.Bindings) {
					break
				}
				pt, ok := fv.Type().Underlying().(*types.Pointer)
				if !ok {
					continue
				}
				a := t.addrOfTerm(t.val(mc.Bindings[i]).S, pt.Elem())
				if a.Kind == aStruct || a.Kind == aArray {
					env.vars[fv.Name()] = Val{Ty: pt.Elem(), Loc: a}
				} else {
					env.vars[fv.Name()] = Val{Ty: pt.Elem(), Cell: a}
				}
			}
		}
	}
	for k, r := range ct.Requires {
		s, err := env.evalClause(r.E)
		if err != nil {
			efail("%s:%d: requires of %s: %v", r.File, r.Line, key, err)
		}
		t.checkCl(fmt.Sprintf("call@%s#%d/pre#%d", key, ord, k), s, "precondition "+r.Src+" of "+key, pos)
	}
	if t.preOnly {
		return
	}
	// re-evaluate pointer args: env terms are values, unaffected
	old := t.cur.clone()
	t.applyModifies(ct, env, key)
	env.cur = t.cur
	env.old = old
	// results
	var rts []Term
	if res != nil {
		if tup, ok := res.Type().(*types.Tuple); ok {
			t.havocVal(res)
			rts = t.tuples[res]
			_ = tup
		} else {
			rts = []Term{t.havocVal(res)}
		}
	} else if len(rn) > 0 {
		// result unused (defer/go or discarded): still bind fresh values
		for i := range rn {
			s := t.vc.sortOf(rt[i])
			x := Term{t.fresh("unused", s), s}
			rts = append(rts, x)
		}
	}
	if ct.Opaque && len(rts) == 1 && res != nil {
		name := "uf_" + mangle(key)
		var ss, as []string
		for i, a := range args {
			if i >= len(pn) {
				break
			}
			ss = append(ss, string(t.val(a).Sort))
			as = append(as, t.val(a).S)
		}
		if len(ss) > 0 {
			t.vc.declFun(name, fmt.Sprintf("(declare-fun %s (%s) %s)", name, strings.Join(ss, " "), rts[0].Sort))
			t.assume(fmt.Sprintf("(= %s (%s %s))", rts[0].S, name, strings.Join(as, " ")))
		}
	}
	for i, ns := range rn {
		if i < len(rts) {
			for k, n := range ns {
				if _, isParam := env.vars[n]; isParam && k > 0 {
					continue // an alias (err, result) never shadows a parameter of that name
				}
				env.vars[n] = Val{T: rts[i], Ty: rt[i]}
			}
			if len(rn) == 1 {
				env.vars["result"] = Val{T: rts[i], Ty: rt[i]}
			}
		}
	}
	for _, ac := range ct.Assigns {
		t.applyAssigns(ac, env, key)
	}
	for _, fr := range ct.Fresh {
		if v, ok := env.vars[fr]; ok {
			r := refOf(v)
			t.assume(fmt.Sprintf("(and (<= %s %s) (< %s %s))", t.next(old), r, r, t.next(t.cur)))
		}
	}
	for _, en := range ct.Ensures {
		s, err := env.evalClause(en.E)
		if err != nil {
			if ct.Trusted && strings.Contains(err.Error(), "unknown type") {
				continue // a fact about a type whose package is not loaded in this run
			}
			efail("%s:%d: ensures of %s: %v", en.File, en.Line, key, err)
		}
		t.assumeCl(s, false)
	}
	if c != nil && c.IsInvoke() && len(args) > 0 {
		t.dispatchFacts(c, args, rts, old)
	}
	// function-valued arguments must satisfy the abstract contract the callee expects
	for pname, an := range ct.Satisfies {
		for i, n := range pn {
			if n != pname || i >= len(args) {
				continue
			}
			ok := "false"
			if f := closureFn(args[i]); f != nil {
				if fc, has := t.w.CS.ByName[funcKey(f)]; has && fc.Implements == an {
					ok = "true"
				}
			}
			t.check(fmt.Sprintf("call@%s#%d/satisfies/%s", key, ord, pname), ok, fmt.Sprintf("argument %s implements contract %s", pname, an), pos)
		}
	}
}

func (t *Tr) applyAssigns(ac AssignClause, env *Env, key string) {
	fail := func(err error) { efail("%s:%d: assigns of %s: %v", ac.File, ac.Line, key, err) }
	d, err := env.evalAny(ac.Dst)
	if err != nil {
		fail(err)
	}
	sl, ok := d.Ty.Underlying().(*types.Slice)
	if !ok {
		fail(fmt.Errorf("destination is not a slice"))
	}
	lo, err := env.evalAny(ac.Lo)
	if err != nil {
		fail(err)
	}
	hi, err := env.evalAny(ac.Hi)
	if err != nil {
		fail(err)
	}
	hn, hs := elemHeapName(sl.Elem()), t.elemHeapSort(sl.Elem())
	h := t.heapGet(t.cur, hn, hs)
	start := linNorm(fmt.Sprintf("(+ (s-off %s) %s)", d.T.S, lo.T.S))
	cnt := t.define("acnt", SInt_, foldArith("-", hi.T.S, lo.T.S))
	row := t.rangeUpdate(fmt.Sprintf("(select %s (s-base %s))", h, d.T.S), start, cnt, sl.Elem(), func(i string) string {
		ne := env.with(ac.Var, Val{T: Term{fmt.Sprintf("(- %s (s-off %s))", i, d.T.S), SInt_}, Ty: tInt})
		ne.qdepth++
		v, err := ne.evalAny(ac.Val)
		if err != nil {
			fail(err)
		}
		return v.T.S
	})
	t.heapSet(t.cur, hn, hs, fmt.Sprintf("(store %s (s-base %s) %s)", h, d.T.S, row))
}

// dispatchFacts: at an interface method call, for every first-party
// implementation under contract that is effect-free (pure), its postconditions
// hold when the receiver has that dynamic type. (Each implementation is
// verified against its own contract.)
func (t *Tr) dispatchFacts(c *ssa.CallCommon, args []ssa.Value, rts []Term, old *State) {
	recv := t.val(c.Value)
	mname := c.Method.Name()
	for _, ct := range t.w.CS.All {
		if ct.Trusted || !ct.Pure || len(ct.Requires) > 1 {
			continue
		}
		for _, n := range ct.Names {
			fn := t.w.FuncKeys[n]
			if fn == nil || fn.Signature.Recv() == nil || fn.Name() != mname {
				continue
			}
			rt := fn.Signature.Recv().Type()
			if !types.Implements(rt, c.Value.Type().Underlying().(*types.Interface)) {
				continue
			}
			if t.vc.sortOf(rt) != SInt_ {
				continue // only pointer receivers (payload = the pointer)
			}
			env := &Env{t: t, vars: map[string]Val{}, cur: t.cur, old: old, pkg: ct.Pkg}
			if len(fn.Params) == 0 {
				continue
			}
			env.vars[fn.Params[0].Name()] = Val{T: Term{fmt.Sprintf("(i-val %s)", recv.S), SInt_}, Ty: rt}
			for i, p := range fn.Params[1:] {
				if i+1 < len(args) {
					env.vars[p.Name()] = Val{T: t.val(args[i+1]), Ty: p.Type()}
				}
			}
			for i, ns := range resultAliases(fn.Signature) {
				if i < len(rts) {
					for _, nm := range ns {
						env.vars[nm] = Val{T: rts[i], Ty: fn.Signature.Results().At(i).Type()}
					}
				}
			}
			guard := fmt.Sprintf("(= (i-tag %s) %s)", recv.S, t.vc.tagOf(rt))
			for _, en := range ct.Ensures {
				s, err := env.evalClause(en.E)
				if err != nil {
					continue
				}
				t.assumeCl(Cl{Q: fmt.Sprintf("(=> %s %s)", guard, s.Q), U: fmt.Sprintf("(=> %s %s)", guard, s.U)}, false)
			}
		}
	}
}

func closureFn(v ssa.Value) *ssa.Function {
	switch f := v.(type) {
	case *ssa.Function:
		return f
	case *ssa.MakeClosure:
		return f.Fn.(*ssa.Function)
	}
	return nil
}

// applyModifies havocs what the contract says the callee may write.
func (t *Tr) applyModifies(ct *Contract, env *Env, key string) {
	if ct.Pure {
		t.bumpNext(t.cur) // a pure function may still allocate (its result)
		return
	}
	if !ct.HasMod {
		if ct.Trusted {
			// trusted spec without modifies: only allocation may happen
			t.bumpNext(t.cur)
			return
		}
		t.havocAll(t.cur, true)
		return
	}
	t.bumpNext(t.cur)
	// heaps the callee is known not to write survive a `*`
	kept := map[string]string{}
	for _, pc := range ct.Preserves {
		if strings.HasPrefix(pc.Src, "maps(") {
			// domain and values of every map of this type
			if mt := t.preservedMapType(ct, pc); mt != nil {
				md, mv := t.mapHeaps(t.cur, mt)
				kept["MD_"+typeKey(mt)] = md
				kept["MV_"+typeKey(mt)] = mv
			}
			continue
		}
		if strings.HasSuffix(pc.Src, ".*") {
			// every field of the struct type
			ts, err := parseTypeString(strings.TrimSuffix(pc.Src, ".*"))
			if err != nil {
				efail("%s:%d: %v", pc.File, pc.Line, err)
			}
			ty, err := t.w.resolveType(ts, ct.Pkg)
			if err != nil {
				continue // type of a package that is not loaded in this run: no such objects here
			}
			st, ok := ty.Underlying().(*types.Struct)
			if !ok {
				efail("%s:%d: preserves %s: not a struct type", pc.File, pc.Line, pc.Src)
			}
			_ = st
			for n, hs := range t.fieldHeaps(ty, 0) {
				kept[n] = t.heapGet(t.cur, n, hs)
			}
			continue
		}
		if x, ok := pc.E.(*SSel); ok {
			if sty, fi := t.typeField(x, ct.Pkg); sty != nil {
				set := map[string]bool{}
				t.modsOfField(sty, sty.Underlying().(*types.Struct).Field(fi), set)
				ft := sty.Underlying().(*types.Struct).Field(fi).Type()
				nested := t.fieldHeaps(ft, 0) // a struct-typed field lives in the heaps of its own fields
				for n := range set {
					hs, ok := nested[n]
					if !ok {
						hs, ok = t.vc.heapSort[n]
					}
					if !ok {
						hs = Sort("(Array Int " + string(t.vc.sortOf(ft)) + ")")
					}
					kept[n] = t.heapGet(t.cur, n, hs)
				}
				continue
			}
		}
		if id, ok := pc.E.(*SSel); ok {
			if inner, ok := id.X.(*SSel); ok {
				if pid, ok := inner.X.(*SIdent); ok {
					if _, loaded := t.w.ByName[pid.Name]; !loaded {
						continue
					}
				}
			}
		}
		efail("%s:%d: preserves %s: not a Type.field", pc.File, pc.Line, pc.Src)
	}
	defer func() {
		for n, v := range kept {
			t.cur.h[n] = v
		}
	}()
	for _, m := range ct.Modifies {
		if m.Src == "*" {
			t.havocAll(t.cur, true)
			continue
		}
		if m.Src == "**" {
			t.havocAll(t.cur, false)
			continue
		}
		if m.File == "assigns" {
			continue // written by the assigns clause once the results are known
		}
		if names, ok := t.wholeHeapItem(m, ct.Pkg); ok {
			for _, n := range names {
				t.heapHavoc(t.cur, n)
			}
			continue
		}
		func() {
			defer func() {
				if r := recover(); r != nil {
					if ee, ok := r.(evalErr); ok && ct.Trusted && strings.Contains(string(ee), "unknown type") {
						return // a location of a type whose package is not loaded in this run: no such object here
					}
					panic(r)
				}
			}()
			t.havocLocation(m, env, key)
		}()
	}
}

func (t *Tr) havocLocation(m Clause, env *Env, key string) {
	star := strings.HasSuffix(m.Src, "[*]")
	// ghost var whole or at a point
	if id, ok := m.E.(*SIdent); ok {
		if g, ok := t.w.CS.Ghosts[id.Name]; ok && g.IsVar {
			t.heapHavoc(t.cur, "G_"+g.Name)
			return
		}
	}
	if call, ok := m.E.(*SCall); ok {
		if id, ok := call.Fun.(*SIdent); ok {
			if g, ok := t.w.CS.Ghosts[id.Name]; ok && g.IsVar {
				s, ptys, rty := t.ghostSort(g)
				h := t.heapGet(t.cur, "G_"+g.Name, s)
				var as []string
				for i, a := range call.Args {
					v, err := env.evalArg(a, ptys[i])
					if err != nil {
						efail("%s:%d: modifies of %s: %v", m.File, m.Line, key, err)
					}
					as = append(as, v.T.S)
				}
				nv := t.fresh("g_"+g.Name, t.vc.sortOf(rty))
				t.heapSet(t.cur, "G_"+g.Name, s, nestedStore(h, as, nv))
				return
			}
		}
	}
	if star {
		v, err := env.evalAny(m.E)
		if err != nil {
			efail("%s:%d: modifies of %s: %v", m.File, m.Line, key, err)
		}
		switch u := v.Ty.Underlying().(type) {
		case *types.Slice:
			hn, hs := elemHeapName(u.Elem()), t.elemHeapSort(u.Elem())
			h := t.heapGet(t.cur, hn, hs)
			row := t.rangeUpdate(fmt.Sprintf("(select %s (s-base %s))", h, v.T.S), fmt.Sprintf("(s-off %s)", v.T.S), fmt.Sprintf("(s-len %s)", v.T.S), u.Elem(), nil)
			t.heapSet(t.cur, hn, hs, fmt.Sprintf("(store %s (s-base %s) %s)", h, v.T.S, row))
		case *types.Map:
			md, mv := t.mapHeaps(t.cur, u)
			ks, vs := t.vc.sortOf(u.Key()), t.vc.sortOf(u.Elem())
			t.heapSet(t.cur, "MD_"+typeKey(u), "", fmt.Sprintf("(store %s %s %s)", md, v.T.S, t.fresh("dom", Sort(fmt.Sprintf("(Array %s Bool)", ks)))))
			t.heapSet(t.cur, "MV_"+typeKey(u), "", fmt.Sprintf("(store %s %s %s)", mv, v.T.S, t.fresh("mval", Sort(fmt.Sprintf("(Array %s %s)", ks, vs)))))
		default:
			efail("%s:%d: modifies %s: not a slice or map", m.File, m.Line, m.Src)
		}
		return
	}
	// location expressions: x.f, *p, a[i]
	switch x := m.E.(type) {
	case *SSel:
		if sty, fi := t.typeField(x, env.pkg); sty != nil {
			// Type.field: the field of every object of that type
			set := map[string]bool{}
			t.modsOfField(sty, sty.Underlying().(*types.Struct).Field(fi), set)
			for n := range set {
				t.heapHavoc(t.cur, n)
			}
			return
		}
		var fv Val
		func() {
			defer func() {
				if r := recover(); r != nil {
					if ee, ok := r.(evalErr); ok {
						efail("%s:%d: modifies of %s: %s", m.File, m.Line, key, string(ee))
					}
					panic(r)
				}
			}()
			fv = env.eval(x)
		}()
		switch {
		case fv.Loc != nil:
			t.havocAddr(fv.Loc)
		case fv.From != nil:
			t.havocAddr(fv.From)
		default:
			efail("%s:%d: modifies %s: not a field location", m.File, m.Line, m.Src)
		}
	case *SDeref:
		p, err := env.evalAny(x.X)
		if err != nil {
			efail("%s:%d: modifies of %s: %v", m.File, m.Line, key, err)
		}
		if p.Ptr != nil {
			t.havocAddr(p.Ptr)
			return
		}
		pt, ok := p.Ty.Underlying().(*types.Pointer)
		if !ok {
			efail("%s:%d: modifies %s: not a pointer", m.File, m.Line, m.Src)
		}
		t.havocAddr(t.addrOfTerm(p.T.S, pt.Elem()))
	default:
		efail("%s:%d: unsupported modifies target %q", m.File, m.Line, m.Src)
	}
}

// fieldHeaps: the heaps (with sorts) holding the fields of struct type ty,
// including those of structs and arrays nested in it by value.
func (t *Tr) fieldHeaps(ty types.Type, depth int) map[string]Sort {
	out := map[string]Sort{}
	st, ok := ty.Underlying().(*types.Struct)
	if !ok || depth > 4 {
		return out
	}
	for i := 0; i < st.NumFields(); i++ {
		f := st.Field(i)
		switch u := f.Type().Underlying().(type) {
		case *types.Struct:
			for n, s := range t.fieldHeaps(f.Type(), depth+1) {
				out[n] = s
			}
		case *types.Array:
			out[elemHeapName(u.Elem())] = t.elemHeapSort(u.Elem())
		default:
			out[fieldHeapName(ty, f)] = Sort("(Array Int " + string(t.vc.sortOf(f.Type())) + ")")
		}
	}
	return out
}

// wholeHeapItem expands pkg(name) / elems(T) to the matching known heaps.
func (t *Tr) wholeHeapItem(m Clause, pkg string) ([]string, bool) {
	var out []string
	switch {
	case strings.HasPrefix(m.Src, "pkg("):
		name := strings.TrimSuffix(strings.TrimPrefix(m.Src, "pkg("), ")")
		for n := range t.vc.heapSort {
			if heapOfPkg(n, name) {
				out = append(out, n)
			}
		}
	case strings.HasPrefix(m.Src, "cells("):
		ts, err := parseTypeString(strings.TrimSuffix(strings.TrimPrefix(m.Src, "cells("), ")"))
		if err != nil {
			efail("%s:%d: %v", m.File, m.Line, err)
		}
		ty, err := t.w.resolveType(ts, pkg)
		if err != nil {
			efail("%s:%d: %v", m.File, m.Line, err)
		}
		hn := cellHeapName(ty)
		t.heapGet(t.cur, hn, Sort("(Array Int "+string(t.vc.sortOf(ty))+")"))
		out = append(out, hn)
	case strings.HasPrefix(m.Src, "elems("):
		ts, err := parseTypeString(strings.TrimSuffix(strings.TrimPrefix(m.Src, "elems("), ")"))
		if err != nil {
			efail("%s:%d: %v", m.File, m.Line, err)
		}
		ty, err := t.w.resolveType(ts, pkg)
		if err != nil {
			efail("%s:%d: %v", m.File, m.Line, err)
		}
		hn := elemHeapName(ty)
		t.heapGet(t.cur, hn, t.elemHeapSort(ty))
		out = append(out, hn)
	default:
		return nil, false
	}
	sortStrings(out)
	return out, true
}

// heapOfPkg: does the heap hold values of a type declared in package name?
func heapOfPkg(heap, name string) bool {
	for _, pre := range []string{"F_", "E_", "C_", "B_", "F_P", "E_P", "C_P", "B_P", "E_LR", "C_LR", "E_LRP", "C_LRP"} {
		if strings.HasPrefix(heap, pre+name+"_") {
			return true
		}
	}
	return false
}

// typeField recognises `T.f` (T a struct type name in scope).
func (t *Tr) typeField(x *SSel, pkg string) (types.Type, int) {
	var obj types.Object
	switch b := x.X.(type) {
	case *SIdent:
		obj = t.w.lookupQualified("", b.Name, pkg)
	case *SSel:
		if id, ok := b.X.(*SIdent); ok {
			obj = t.w.lookupQualified(id.Name, b.Sel, pkg)
		}
	}
	tn, ok := obj.(*types.TypeName)
	if !ok {
		return nil, 0
	}
	st, ok := tn.Type().Underlying().(*types.Struct)
	if !ok {
		return nil, 0
	}
	i := findField(st, x.Sel)
	if i < 0 {
		return nil, 0
	}
	return tn.Type(), i
}

func (t *Tr) havocAddr(a *Addr) {
	switch a.Kind {
	case aStruct:
		stt := a.Ty.Underlying().(*types.Struct)
		for i := 0; i < stt.NumFields(); i++ {
			t.havocAddr(t.fieldAddr(a.Ty, i, a.Obj))
		}
	case aArray:
		at := a.Ty.Underlying().(*types.Array)
		es := t.vc.sortOf(at.Elem())
		t.store(t.cur, a, t.fresh("arr", Sort("(Array Int "+string(es)+")")))
	default:
		s := t.vc.sortOf(a.storedType())
		x := Term{t.fresh("hv", s), s}
		t.store(t.cur, a, x.S)
		t.assumeTyped(x, a.storedType())
	}
}

func nestedStore(h string, idx []string, v string) string {
	if len(idx) == 0 {
		return v
	}
	if len(idx) == 1 {
		return fmt.Sprintf("(store %s %s %s)", h, idx[0], v)
	}
	return fmt.Sprintf("(store %s %s %s)", h, idx[0], nestedStore(fmt.Sprintf("(select %s %s)", h, idx[0]), idx[1:], v))
}

// callMods: heaps a call may write (for loop havoc). Returns (all, allGhost).
func (t *Tr) callMods(c *ssa.CallCommon, set map[string]bool) (bool, bool) {
	if b, ok := c.Value.(*ssa.Builtin); ok {
		switch b.Name() {
		case "append", "copy":
			if len(c.Args) > 0 {
				if sl, ok := c.Args[0].Type().Underlying().(*types.Slice); ok {
					set[elemHeapName(sl.Elem())] = true
				}
			}
		case "delete":
			if mt, ok := c.Args[0].Type().Underlying().(*types.Map); ok {
				set["MD_"+typeKey(mt)] = true
				set["MV_"+typeKey(mt)] = true
			}
		}
		return false, false
	}
	ct, key := t.findContract(c)
	if ct == nil {
		if key != "" && t.isPureGlob(key) {
			return false, false
		}
		return true, true
	}
	// interior pointers passed as arguments: `*p` clauses write the caller's field/element heap
	var args []ssa.Value
	if c.IsInvoke() {
		args = append(args, c.Value)
	}
	args = append(args, c.Args...)
	pn, _, _, _ := t.contractParams(ct, c, len(args))
	t.ptrArgs = map[string]ssa.Value{}
	for i, a := range args {
		if i < len(pn) {
			t.ptrArgs[pn[i]] = a
		}
	}
	defer func() { t.ptrArgs = nil }()
	return t.contractMods(ct, set)
}

func (t *Tr) contractMods(ct *Contract, set map[string]bool) (bool, bool) {
	if ct.Pure {
		return false, false
	}
	if !ct.HasMod {
		if ct.Trusted {
			return false, false
		}
		return true, false
	}
	all, allGhost := false, false
	for _, m := range ct.Modifies {
		switch {
		case m.Src == "*":
			all = true
		case m.Src == "**":
			all, allGhost = true, true
		default:
			// conservative: any location-precise modifies widens to the heaps of that shape.
			// We do not know the static types here without an env, so widen by name match:
			t.modsOfClause(ct, m, set)
		}
	}
	return all, allGhost
}

// modsOfClause over-approximates the heaps named by a modifies clause.
func (t *Tr) modsOfClause(ct *Contract, m Clause, set map[string]bool) {
	if names, ok := t.wholeHeapItem(m, ct.Pkg); ok {
		for _, n := range names {
			set[n] = true
		}
		if strings.HasPrefix(m.Src, "pkg(") {
			set["~pkg:"+strings.TrimSuffix(strings.TrimPrefix(m.Src, "pkg("), ")")] = true
		}
		return
	}
	root := m.E
	if c, ok := root.(*SCall); ok {
		if id, ok := c.Fun.(*SIdent); ok {
			if g, ok := t.w.CS.Ghosts[id.Name]; ok && g.IsVar {
				set["G_"+g.Name] = true
				return
			}
		}
	}
	if id, ok := root.(*SIdent); ok {
		if g, ok := t.w.CS.Ghosts[id.Name]; ok && g.IsVar {
			set["G_"+g.Name] = true
			return
		}
	}
	if x, ok := root.(*SSel); ok {
		if sty, fi := t.typeField(x, ct.Pkg); sty != nil {
			t.modsOfField(sty, sty.Underlying().(*types.Struct).Field(fi), set)
			return
		}
	}
	// Field / deref / slice targets: resolve types from the callee's signature.
	ty := t.clauseRootType(ct, m)
	if ty == nil {
		set["*unknown*"] = true
		for n := range t.vc.heapSort {
			if !strings.HasPrefix(n, "G_") {
				set[n] = true
			}
		}
		return
	}
	if strings.HasSuffix(m.Src, "[*]") {
		switch u := ty.Underlying().(type) {
		case *types.Slice:
			set[elemHeapName(u.Elem())] = true
		case *types.Map:
			set["MD_"+typeKey(u)] = true
			set["MV_"+typeKey(u)] = true
		}
		return
	}
	switch x := m.E.(type) {
	case *SSel:
		_ = x
		// ty is the type of x.X
		if st, stt, _ := derefStruct(ty); stt != nil {
			if i := findField(stt, x.Sel); i >= 0 {
				t.modsOfField(st, stt.Field(i), set)
				return
			}
		}
	case *SDeref:
		if id, ok := x.X.(*SIdent); ok && t.ptrArgs != nil {
			if a, ok := t.ptrArgs[id.Name]; ok {
				switch a.(type) {
				case *ssa.FieldAddr, *ssa.IndexAddr:
					t.modsOfPtr(a, set)
					return
				}
			}
		}
		if pt, ok := ty.Underlying().(*types.Pointer); ok {
			t.modsOfType(pt.Elem(), set)
			return
		}
	}
	for n := range t.vc.heapSort {
		if !strings.HasPrefix(n, "G_") {
			set[n] = true
		}
	}
}

// clauseRootType types the operand of a modifies clause (x in x.f, p in *p, b in b[*])
// against the callee's declared parameter types.
func (t *Tr) clauseRootType(ct *Contract, m Clause) types.Type {
	var operand SExpr
	switch x := m.E.(type) {
	case *SSel:
		operand = x.X
	case *SDeref:
		operand = x.X
	default:
		operand = m.E
	}
	if strings.HasSuffix(m.Src, "[*]") {
		operand = m.E // the slice or map itself
	}
	vars := map[string]types.Type{}
	for _, p := range ct.Params {
		if ty, err := t.w.resolveType(p.Ty, ct.Pkg); err == nil {
			vars[p.Name] = ty
		}
	}
	if len(ct.Params) == 0 {
		for _, n := range ct.Names {
			if f := t.w.FuncKeys[n]; f != nil {
				for _, p := range f.Params {
					vars[p.Name()] = p.Type()
				}
				break
			}
		}
	}
	var typeOf func(e SExpr) types.Type
	typeOf = func(e SExpr) types.Type {
		switch e := e.(type) {
		case *SIdent:
			return vars[e.Name]
		case *SSel:
			bt := typeOf(e.X)
			if bt == nil {
				return nil
			}
			_, stt, _ := derefStruct(bt)
			if stt == nil {
				return nil
			}
			if i := findField(stt, e.Sel); i >= 0 {
				return stt.Field(i).Type()
			}
		case *SDeref:
			bt := typeOf(e.X)
			if bt == nil {
				return nil
			}
			if pt, ok := bt.Underlying().(*types.Pointer); ok {
				return pt.Elem()
			}
		}
		return nil
	}
	return typeOf(operand)
}

// frameAllowed computes the heaps the function's own modifies clause covers;
// ok=false when there is no frame to check (default `*`, trusted, lemma).
func (t *Tr) frameAllowed() (map[string]bool, bool) {
	ct := t.c
	if ct == nil || ct.Trusted || ct.Lemma {
		return nil, false
	}
	if !ct.HasMod && !ct.Pure {
		return nil, false // default frame is `*`: nothing to check
	}
	allowed := map[string]bool{}
	for _, m := range ct.Modifies {
		if m.Src == "*" || m.Src == "**" {
			return nil, false
		}
		t.modsOfClause(ct, m, allowed)
	}
	_ = 0
	if allowed["*unknown*"] {
		return nil, false
	}
	return allowed, true
}

// frameFormula: every heap in names (nil = all known) that the modifies clause
// does not cover is unchanged, between st and the entry state, on objects
// that existed at entry.
func (t *Tr) frameFormula(st *State, allowed map[string]bool, only map[string]bool) string {
	next0 := t.next(t.entry)
	var names []string
	for n := range t.vc.heapSort {
		names = append(names, n)
	}
	sortStrings(names)
	var parts []string
	for _, n := range names {
		if n == "NEXT" || strings.HasPrefix(n, "RV_") || strings.HasPrefix(n, "RI_") {
			continue
		}
		if only != nil && !only[n] {
			continue
		}
		s := t.vc.heapSort[n]
		a, b := t.heapGet(st, n, s), t.heapGet(t.entry, n, s)
		if a == b {
			continue
		}
		if allowed[n] || allowedByPattern(allowed, n) {
			// location-precise part is carried by explicit ensures; the heap as a whole may change
			continue
		}
		if strings.HasPrefix(n, "G_") {
			parts = append(parts, fmt.Sprintf("(= %s %s)", a, b))
			continue
		}
		t.n++
		q := fmt.Sprintf("qf_%d", t.n)
		// aroot: the allocation an (interior) address belongs to
		t.vc.declFun("aroot", "(define-fun adec ((p Int)) Int (let ((e (div (- (- p) 1) 4096))) (ite (= (mod e 2) 0) (div e 2) (- (div e 2)))))\n(define-fun aroot ((p Int)) Int (ite (> p 0) p (let ((q (adec p))) (ite (> q 0) q (let ((q2 (adec q))) (ite (> q2 0) q2 (adec q2)))))))")
		parts = append(parts, fmt.Sprintf("(forall ((%s Int)) (! (=> (< (aroot %s) %s) (= (select %s %s) (select %s %s))) :pattern ((select %s %s))))", q, q, next0, a, q, b, q, a, q))
	}
	return mkAnd(parts...)
}

// frameAtReturn checks the function's own modifies clause: every heap not
// named is unchanged on objects that existed at entry.
func (t *Tr) preservedMapType(ct *Contract, pc Clause) *types.Map {
	ts, err := parseTypeString(strings.TrimSuffix(strings.TrimPrefix(pc.Src, "maps("), ")"))
	if err != nil {
		efail("%s:%d: %v", pc.File, pc.Line, err)
	}
	ty, err := t.w.resolveType(ts, ct.Pkg)
	if err != nil {
		return nil // type of a package not loaded in this run
	}
	mt, ok := ty.Underlying().(*types.Map)
	if !ok {
		efail("%s:%d: preserves %s: not a map type", pc.File, pc.Line, pc.Src)
	}
	return mt
}

// preservedHeaps: the heaps a `preserves` clause names.
func (t *Tr) preservedHeaps(ct *Contract) map[string]bool {
	out := map[string]bool{}
	for _, pc := range ct.Preserves {
		if strings.HasPrefix(pc.Src, "maps(") {
			if mt := t.preservedMapType(ct, pc); mt != nil {
				out["MD_"+typeKey(mt)] = true
				out["MV_"+typeKey(mt)] = true
			}
			continue
		}
		if strings.HasSuffix(pc.Src, ".*") {
			ts, err := parseTypeString(strings.TrimSuffix(pc.Src, ".*"))
			if err != nil {
				continue
			}
			ty, err := t.w.resolveType(ts, ct.Pkg)
			if err != nil {
				continue
			}
			for n := range t.fieldHeaps(ty, 0) {
				out[n] = true
			}
			continue
		}
		if x, ok := pc.E.(*SSel); ok {
			if sty, fi := t.typeField(x, ct.Pkg); sty != nil {
				t.modsOfField(sty, sty.Underlying().(*types.Struct).Field(fi), out)
			}
		}
	}
	return out
}

func (t *Tr) frameAtReturn() {
	if ct := t.c; ct != nil && !ct.Trusted && len(ct.Preserves) > 0 {
		// `modifies *` with a preserves list: the listed heaps are checked
		only := t.preservedHeaps(ct)
		f := t.frameFormula(t.cur, map[string]bool{}, only)
		if t.curReach != "true" {
			f = fmt.Sprintf("(=> %s %s)", t.curReach, f)
		}
		if f != "true" {
			t.frameOb = append(t.frameOb, f)
		}
		return
	}
	allowed, ok := t.frameAllowed()
	if !ok {
		return
	}
	f := t.frameFormula(t.cur, allowed, nil)
	if t.curReach != "true" {
		f = fmt.Sprintf("(=> %s %s)", t.curReach, f)
	}
	if f != "true" {
		t.frameOb = append(t.frameOb, f)
	}
}

func allowedByPattern(allowed map[string]bool, heap string) bool {
	for k := range allowed {
		if strings.HasPrefix(k, "~pkg:") && heapOfPkg(heap, strings.TrimPrefix(k, "~pkg:")) {
			return true
		}
	}
	return false
}

func sortStrings(s []string) {
	for i := 1; i < len(s); i++ {
		for j := i; j > 0 && s[j] < s[j-1]; j-- {
			s[j], s[j-1] = s[j-1], s[j]
		}
	}
}

// ---- builtins ----

func (t *Tr) builtin(b *ssa.Builtin, c *ssa.CallCommon, res ssa.Value, pos token.Pos) {
	switch b.Name() {
	case "len", "cap":
		x := t.val(c.Args[0])
		switch u := c.Args[0].Type().Underlying().(type) {
		case *types.Slice:
			if b.Name() == "len" {
				t.setVal(res, fmt.Sprintf("(s-len %s)", x.S))
			} else {
				t.setVal(res, fmt.Sprintf("(s-cap %s)", x.S))
			}
		case *types.Basic:
			t.vc.needStr()
			t.setVal(res, fmt.Sprintf("(strlen %s)", x.S))
		case *types.Array:
			t.setVal(res, fmt.Sprint(u.Len()))
		case *types.Pointer:
			t.setVal(res, fmt.Sprint(u.Elem().Underlying().(*types.Array).Len()))
		case *types.Map:
			v := t.havocVal(res)
			t.assume(fmt.Sprintf("(<= 0 %s)", v.S))
			t.vc.note("len(map) havocked (non-negative)")
		default:
			v := t.havocVal(res)
			t.assume(fmt.Sprintf("(<= 0 %s)", v.S))
		}
	case "append":
		t.appendBuiltin(c, res, pos)
	case "copy":
		t.copyBuiltin(c, res)
	case "delete":
		mt := c.Args[0].Type().Underlying().(*types.Map)
		m, k := t.val(c.Args[0]), t.val(c.Args[1])
		md, _ := t.mapHeaps(t.cur, mt)
		t.heapSet(t.cur, "MD_"+typeKey(mt), "", fmt.Sprintf("(store %s %s (store (select %s %s) %s false))", md, m.S, md, m.S, k.S))
	case "min", "max":
		x, y := t.val(c.Args[0]), t.val(c.Args[1])
		op := "<="
		if b.Name() == "max" {
			op = ">="
		}
		if len(c.Args) == 2 && x.Sort == SInt_ {
			t.setVal(res, fmt.Sprintf("(ite (%s %s %s) %s %s)", op, x.S, y.S, x.S, y.S))
		} else {
			t.havocVal(res)
		}
	case "close", "print", "println":
	case "recover":
		if res != nil {
			t.havocVal(res)
		}
	default:
		if res != nil {
			t.havocVal(res)
		}
		t.vc.note("builtin %s havocked", b.Name())
	}
}

func (t *Tr) appendBuiltin(c *ssa.CallCommon, res ssa.Value, pos token.Pos) {
	s := t.val(c.Args[0])
	st := c.Args[0].Type().Underlying().(*types.Slice)
	et := st.Elem()
	es := t.vc.sortOf(et)
	hn, hs := elemHeapName(et), t.elemHeapSort(et)
	h := t.heapGet(t.cur, hn, hs)
	// the appended elements
	var addLen string
	var elemAt func(i string) string
	if isStringType(c.Args[1].Type()) {
		y := t.val(c.Args[1])
		t.vc.needStr()
		addLen = fmt.Sprintf("(strlen %s)", y.S)
		elemAt = func(i string) string { return fmt.Sprintf("(strat %s %s)", y.S, i) }
	} else {
		y := t.val(c.Args[1])
		addLen = fmt.Sprintf("(s-len %s)", y.S)
		elemAt = func(i string) string {
			return fmt.Sprintf("(select (select %s (s-base %s)) %s)", h, y.S, linNorm(fmt.Sprintf("(+ (s-off %s) %s)", y.S, i)))
		}
	}
	newLen := t.define("alen", SInt_, fmt.Sprintf("(+ (s-len %s) %s)", s.S, addLen))
	fits := t.define("afits", SBool_, fmt.Sprintf("(<= %s (s-cap %s))", newLen, s.S))
	ref := t.allocRef(t.cur)
	nbase := t.define("abase", SInt_, fmt.Sprintf("(ite %s (s-base %s) %s)", fits, s.S, ref))
	noff := t.define("aoff", SInt_, fmt.Sprintf("(ite %s (s-off %s) 0)", fits, s.S))
	ncap := t.fresh("acap", SInt_)
	t.assume(fmt.Sprintf("(and (>= %s %s) (=> %s (= %s (s-cap %s))))", ncap, newLen, fits, ncap, s.S))
	oldRow := fmt.Sprintf("(select %s (s-base %s))", h, s.S)
	soff := fmt.Sprintf("(s-off %s)", s.S)
	slen := fmt.Sprintf("(s-len %s)", s.S)
	// new row: positions [noff, noff+len) hold the old elements, [noff+len, noff+newLen) the appended ones;
	// when appending in place every other position keeps its content, otherwise the row is new.
	t.n++
	fill := fmt.Sprintf("afill_%d", t.n)
	t.vc.Items = append(t.vc.Items, Item{Kind: itDecl, Text: fmt.Sprintf("(declare-const %s (Array Int %s))", fill, es)})
	rest := t.define("arest", Sort("(Array Int "+string(es)+")"), fmt.Sprintf("(ite %s %s %s)", fits, oldRow, fill))
	row := t.rangeUpdate(rest, noff, newLen, et, func(i string) string {
		rel := fmt.Sprintf("(- %s %s)", i, noff)
		return fmt.Sprintf("(ite (< %s %s) (select %s (+ %s %s)) %s)", rel, slen, oldRow, soff, rel, elemAt(fmt.Sprintf("(- %s %s)", rel, slen)))
	})
	t.heapSet(t.cur, hn, hs, fmt.Sprintf("(store %s %s %s)", h, nbase, row))
	// ground instances of the update for the first appended element (a valid
	// instance of the range axiom; gives the solvers a term to match on)
	t.assume(fmt.Sprintf("(=> (> %s 0) (= (select %s %s) %s))", addLen, row, linNorm(fmt.Sprintf("(+ %s %s)", noff, slen)), elemAt("0")))
	// the same copy read from the old side (an instance schema of the range
	// axiom with a trigger on the old element, so that facts about old elements
	// carry over to the new slice without a term naming the new element)
	t.n++
	bk := fmt.Sprintf("ak_%d", t.n)
	t.assume(fmt.Sprintf("(forall ((%s Int)) (! (=> (and (<= 0 %s) (< %s %s)) (= (select %s (+ %s %s)) (select %s (+ %s %s)))) :pattern ((select %s (+ %s %s)))))",
		bk, bk, bk, slen, row, noff, bk, oldRow, soff, bk, oldRow, soff, bk))
	t.setVal(res, fmt.Sprintf("(mk-slice %s %s %s %s)", nbase, noff, newLen, ncap))
	_ = pos
}

func (t *Tr) copyBuiltin(c *ssa.CallCommon, res ssa.Value) {
	d := t.val(c.Args[0])
	dt := c.Args[0].Type().Underlying().(*types.Slice)
	et := dt.Elem()
	es := t.vc.sortOf(et)
	hn, hs := elemHeapName(et), t.elemHeapSort(et)
	h := t.heapGet(t.cur, hn, hs)
	var srcLen string
	var srcAt func(i string) string
	if isStringType(c.Args[1].Type()) {
		y := t.val(c.Args[1])
		t.vc.needStr()
		srcLen = fmt.Sprintf("(strlen %s)", y.S)
		srcAt = func(i string) string { return fmt.Sprintf("(strat %s %s)", y.S, i) }
	} else {
		y := t.val(c.Args[1])
		srcLen = fmt.Sprintf("(s-len %s)", y.S)
		srcAt = func(i string) string {
			return fmt.Sprintf("(select (select %s (s-base %s)) %s)", h, y.S, linNorm(fmt.Sprintf("(+ (s-off %s) %s)", y.S, i)))
		}
	}
	n := t.define("ncopy", SInt_, fmt.Sprintf("(ite (<= (s-len %s) %s) (s-len %s) %s)", d.S, srcLen, d.S, srcLen))
	oldRow := fmt.Sprintf("(select %s (s-base %s))", h, d.S)
	doff := fmt.Sprintf("(s-off %s)", d.S)
	row := t.rangeUpdate(oldRow, doff, n, et, func(i string) string { return srcAt(linNorm(fmt.Sprintf("(- %s %s)", i, doff))) })
	t.heapSet(t.cur, hn, hs, fmt.Sprintf("(store %s (s-base %s) %s)", h, d.S, row))
	_ = es
	if res != nil {
		t.setVal(res, n)
	}
}
