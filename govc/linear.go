package main

// Canonical form for linear integer terms, so that arithmetically equal index
// expressions are syntactically equal (E-matching and array reasoning in the
// solvers work modulo syntax, not modulo arithmetic).

import (
	"sort"
	"strconv"
	"strings"
)

type linTerm struct {
	c     int64
	atoms map[string]int64
	ok    bool
}

func splitSexp(s string) []string {
	// s is "(op a b ...)": returns [op a b ...]
	s = s[1 : len(s)-1]
	var out []string
	depth := 0
	start := 0
	for i := 0; i <= len(s); i++ {
		if i == len(s) || (s[i] == ' ' && depth == 0) {
			if i > start {
				out = append(out, s[start:i])
			}
			start = i + 1
			continue
		}
		switch s[i] {
		case '(':
			depth++
		case ')':
			depth--
		}
	}
	return out
}

func linParse(s string, depth int) linTerm {
	t := linTerm{atoms: map[string]int64{}, ok: true}
	if v, ok := isLit(s); ok {
		t.c = v
		return t
	}
	if depth > 12 || !strings.HasPrefix(s, "(") {
		t.atoms[s] = 1
		return t
	}
	parts := splitSexp(s)
	if len(parts) == 0 {
		t.atoms[s] = 1
		return t
	}
	add := func(o linTerm, k int64) {
		t.c += k * o.c
		for a, c := range o.atoms {
			t.atoms[a] += k * c
		}
	}
	switch parts[0] {
	case "+":
		for _, p := range parts[1:] {
			add(linParse(p, depth+1), 1)
		}
		return t
	case "-":
		if len(parts) == 2 {
			add(linParse(parts[1], depth+1), -1)
			return t
		}
		add(linParse(parts[1], depth+1), 1)
		for _, p := range parts[2:] {
			add(linParse(p, depth+1), -1)
		}
		return t
	case "*":
		if len(parts) == 3 {
			if k, ok := isLit(parts[1]); ok && k > -1<<31 && k < 1<<31 {
				add(linParse(parts[2], depth+1), k)
				return t
			}
			if k, ok := isLit(parts[2]); ok && k > -1<<31 && k < 1<<31 {
				add(linParse(parts[1], depth+1), k)
				return t
			}
		}
	}
	t.atoms[s] = 1
	return t
}

func linBuild(t linTerm) string {
	var names []string
	for a, c := range t.atoms {
		if c != 0 {
			names = append(names, a)
		}
	}
	sort.Strings(names)
	var pos, neg []string
	for _, a := range names {
		c := t.atoms[a]
		abs := c
		if abs < 0 {
			abs = -abs
		}
		term := a
		if abs != 1 {
			term = "(* " + strconv.FormatInt(abs, 10) + " " + a + ")"
		}
		if c > 0 {
			pos = append(pos, term)
		} else {
			neg = append(neg, term)
		}
	}
	if t.c > 0 {
		pos = append(pos, strconv.FormatInt(t.c, 10))
	} else if t.c < 0 {
		neg = append(neg, strconv.FormatInt(-t.c, 10))
	}
	var p string
	switch len(pos) {
	case 0:
		p = "0"
	case 1:
		p = pos[0]
	default:
		p = "(+ " + strings.Join(pos, " ") + ")"
	}
	if len(neg) == 0 {
		return p
	}
	if len(pos) == 0 {
		if len(neg) == 1 {
			return "(- " + neg[0] + ")"
		}
		return "(- (+ " + strings.Join(neg, " ") + "))"
	}
	return "(- " + p + " " + strings.Join(neg, " ") + ")"
}

// linNorm canonicalises a linear term; non-linear parts stay as atoms.
func linNorm(s string) string {
	if len(s) > 4000 {
		return s
	}
	return linBuild(linParse(s, 0))
}
