package main

import (
	"encoding/json"
	"flag"
	"fmt"
	"os"
	"path/filepath"
	"runtime"
	"sort"
	"strconv"
	"strings"
	"sync"
	"time"

	"golang.org/x/tools/go/ssa"
)

var verifDir = "/verif"

// outDir: where evidence and replay files are written (default: verifDir).
// The self-test harness points it elsewhere so mutant runs do not touch /verif/evidence.
var outDir = ""

// withCover: also generate reachability (non-vacuity) queries, which expect sat
// and are expensive; on in the thorough tier and in `govc vc`.
var withCover = false

func main() {
	if len(os.Args) < 2 {
		fmt.Fprintln(os.Stderr, "usage: govc check|baseline|vc|list ...")
		os.Exit(2)
	}
	if d := os.Getenv("GOVC_VERIF_DIR"); d != "" {
		verifDir = d
	}
	outDir = verifDir
	if d := os.Getenv("GOVC_OUT_DIR"); d != "" {
		outDir = d
	}
	switch os.Args[1] {
	case "check", "baseline":
		os.Exit(cmdCheck(os.Args[1], os.Args[2:]))
	case "vc":
		os.Exit(cmdVC(os.Args[2:]))
	case "list":
		os.Exit(cmdList(os.Args[2:]))
	case "bench":
		os.Exit(cmdBench(os.Args[2:]))
	default:
		fmt.Fprintln(os.Stderr, "unknown command", os.Args[1])
		os.Exit(2)
	}
}

func scratchDir() string {
	base := os.Getenv("TMPDIR")
	if base == "" {
		base = "/var/tmp"
	}
	d, err := os.MkdirTemp(base, "govc-")
	if err != nil {
		panic(err)
	}
	return d
}

func defaultPatterns() []string {
	if p := os.Getenv("GOVC_PKGS"); p != "" {
		return strings.Fields(p)
	}
	return []string{"./..."}
}

func cmdList(args []string) int {
	fs := flag.NewFlagSet("list", flag.ExitOnError)
	repo := fs.String("repo", "/repo", "")
	fs.Parse(args)
	w, err := loadWorld(*repo, defaultPatterns(), filepath.Join(verifDir, "specs"))
	if err != nil {
		fmt.Fprintln(os.Stderr, err)
		return 2
	}
	for _, c := range w.CS.All {
		fmt.Printf("%v props=%v trusted=%v\n", c.Names, c.Props, c.Trusted)
	}
	sort.Strings(w.DupKeys)
	for _, k := range w.DupKeys {
		fmt.Printf("duplicate short key: %s\n", k)
	}
	return 0
}

func cmdVC(args []string) int {
	fs := flag.NewFlagSet("vc", flag.ExitOnError)
	repo := fs.String("repo", "/repo", "")
	fnKey := fs.String("func", "", "function key")
	keep := fs.Bool("keep", false, "keep scratch dir")
	ms := fs.Int("ms", 10000, "timeout per obligation (ms)")
	showAll := fs.Bool("v", false, "show all obligations")
	pk := fs.String("pkgs", "", "package patterns")
	doReplay := fs.Bool("replay", false, "replay refuted/candidate obligations")
	noCover := fs.Bool("nocover", false, "skip reachability queries")
	fs.Parse(args)
	pats := defaultPatterns()
	if *pk != "" {
		pats = strings.Fields(*pk)
	}
	w, err := loadWorld(*repo, pats, filepath.Join(verifDir, "specs"))
	if err != nil {
		fmt.Fprintln(os.Stderr, err)
		return 2
	}
	fn := w.FuncKeys[*fnKey]
	if fn == nil {
		fmt.Fprintln(os.Stderr, "no such function; candidates:")
		for k := range w.FuncKeys {
			if strings.Contains(k, strings.TrimPrefix(*fnKey, "?")) && w.firstParty(w.FuncKeys[k]) {
				fmt.Fprintln(os.Stderr, "  ", k)
			}
		}
		return 2
	}
	withCover = !*noCover
	vc, err := w.translate(fn, w.CS.ByName[*fnKey])
	if err != nil {
		fmt.Fprintln(os.Stderr, "translate:", err)
		return 2
	}
	dir := scratchDir()
	if !*keep {
		defer os.RemoveAll(dir)
	} else {
		fmt.Println("scratch:", dir)
	}
	par := make(chan struct{}, runtime.NumCPU())
	res := solveVC(vc, dir, *ms, *ms, par)
	nd := 0
	for _, r := range res {
		if r.Status == "discharged" {
			nd++
			if !*showAll {
				continue
			}
		}
		fmt.Printf("%-12s %-40s %s %s [%s %.2fs]\n", r.Status, r.Name, r.Pos, r.Src, r.Solver, r.Secs)
		if r.Detail != "" {
			fmt.Println("    ", strings.ReplaceAll(strings.TrimSpace(r.Detail), "\n", "\n     "))
		}
		if *doReplay && (r.Status == "refuted" || r.Status == "candidate") && r.Expect == "unsat" {
			rr := r
			rp, found := replayViolation(w, map[string]*VC{vc.Fn: vc}, "DEV", vc.Fn+"::"+r.Name, &rr, dir)
			fmt.Printf("     replay=%s failing-input-found=%v\n", rp, found)
		}
	}
	fmt.Printf("%s: %d/%d discharged\n", *fnKey, nd, len(res))
	for _, n := range vc.Notes {
		fmt.Println("note:", n)
	}
	for k, n := range vc.Unmod {
		fmt.Printf("unmodelled: %s x%d\n", k, n)
	}
	return 0
}

type Baseline struct {
	Property    string   `json:"property"`
	Obligations []string `json:"obligations"` // "fn::name"
	// obligations generated on the unchanged tree that no solver decided there:
	// not claimed, tolerated. Any other obligation that fails is new code
	// failing its contract.
	Open []string `json:"open"`
}

type KnownFinding struct {
	Property   string `json:"property"`
	Obligation string `json:"obligation"` // "fn::name"
	What       string `json:"what"`
	Witness    string `json:"witness,omitempty"` // SMT predicate: the recorded failing input class
}

type KnownFile struct {
	Findings []KnownFinding `json:"findings"`
	Fixed    []string       `json:"fixed"`
}

func loadKnown() KnownFile {
	var kf KnownFile
	b, err := os.ReadFile(filepath.Join(verifDir, "known_findings.json"))
	if err == nil {
		json.Unmarshal(b, &kf)
	}
	return kf
}

func cmdCheck(mode string, args []string) int {
	fs := flag.NewFlagSet(mode, flag.ExitOnError)
	repo := fs.String("repo", "/repo", "")
	prop := fs.String("property", "", "property id")
	tier := fs.String("tier", "", "quick|thorough")
	openOnly := fs.Bool("openonly", false, "baseline: keep the claimed obligations, only record the open ones")
	fs.Parse(args)
	if *tier == "" {
		*tier = os.Getenv("VERIF_TIER")
	}
	if *tier == "" {
		*tier = "quick"
	}
	seed, _ := strconv.Atoi(os.Getenv("VERIF_SEED"))
	t0 := time.Now()
	w, err := loadWorld(*repo, defaultPatterns(), filepath.Join(verifDir, "specs"))
	if err != nil {
		// loading is deterministic for a given tree; one retry only guards against a
		// transient failure of the go command on a cold machine
		fmt.Fprintln(os.Stderr, "load:", err, "(retrying once)")
		time.Sleep(2 * time.Second)
		w, err = loadWorld(*repo, defaultPatterns(), filepath.Join(verifDir, "specs"))
	}
	if err != nil {
		// the tree does not load (or a contract file does not parse): nothing is proved
		fmt.Fprintln(os.Stderr, "load:", err)
		rp := writeReplay(*prop, "load", "load/translate failure: "+err.Error())
		fmt.Printf("VIOLATION property=%s replay=%s no-failing-input-found\n", *prop, rp)
		writeEvidenceFail(*prop, *tier, seed, time.Since(t0).Seconds(), err.Error())
		return 1
	}
	loadSecs := time.Since(t0).Seconds()
	quickMs, fullMs := 4000, 15000
	if *tier == "thorough" {
		quickMs, fullMs = 10000, 60000
		withCover = true
	}
	// functions under contract for this property
	type job struct {
		key string
		c   *Contract
		fn  *ssa.Function
	}
	var jobs []job
	var results []Result
	seen := map[*Contract]bool{}
	for _, c := range w.CS.All {
		if seen[c] || c.Trusted || len(c.Names) == 0 {
			continue
		}
		has := false
		for _, p := range c.Props {
			if p == *prop {
				has = true
			}
		}
		if !has {
			continue
		}
		seen[c] = true
		if _, abs := w.CS.Abstract[c.Names[0]]; abs && c.Pkg == "" {
			continue
		}
		for _, n := range c.Names {
			fn := w.FuncKeys[n]
			if fn == nil || len(fn.Blocks) == 0 {
				results = append(results, Result{Fn: n, Name: "exists", Status: "refuted", Src: "function under contract exists in the current tree", Expect: "unsat", Detail: "contract target not found"})
				continue
			}
			results = append(results, Result{Fn: n, Name: "exists", Status: "discharged", Src: "function under contract exists in the current tree", Expect: "unsat", Solver: "loader"})
			jobs = append(jobs, job{n, c, fn})
		}
	}
	dir := scratchDir()
	if os.Getenv("GOVC_KEEP") == "" {
		defer os.RemoveAll(dir)
	} else {
		fmt.Fprintln(os.Stderr, "scratch:", dir)
	}
	par := make(chan struct{}, runtime.NumCPU())
	var mu sync.Mutex
	var wg sync.WaitGroup
	vcs := map[string]*VC{}
	var retried []string
	for _, j := range jobs {
		vc, err := w.translate(j.fn, j.c)
		if err != nil {
			// Translation is a deterministic function of the source and the
			// contract: a real error repeats. One retry guards against a
			// transient internal failure; the first error is kept in evidence.
			first := err
			fmt.Fprintf(os.Stderr, "translate %s: %v (retrying once)\n", j.key, err)
			vc, err = w.translate(j.fn, j.c)
			if err != nil {
				mu.Lock()
				results = append(results, Result{Fn: j.key, Name: "contract/wellformed", Status: "refuted", Src: "contract can be evaluated against the current code", Detail: err.Error(), Expect: "unsat"})
				mu.Unlock()
				continue
			}
			retried = append(retried, fmt.Sprintf("%s: translation retried after: %v", j.key, first))
		}
		// (the solver goroutines started below append to results too)
		mu.Lock()
		results = append(results, Result{Fn: j.key, Name: "contract/wellformed", Status: "discharged", Src: "contract can be evaluated against the current code", Expect: "unsat", Solver: "translator"})
		mu.Unlock()
		vcs[j.key] = vc
		wg.Add(1)
		go func(vc *VC) {
			defer wg.Done()
			rs := solveVC(vc, dir, quickMs, fullMs, par)
			mu.Lock()
			results = append(results, rs...)
			mu.Unlock()
		}(vc)
	}
	wg.Wait()
	sort.SliceStable(results, func(i, j int) bool {
		if results[i].Fn != results[j].Fn {
			return results[i].Fn < results[j].Fn
		}
		return false
	})

	blFile := filepath.Join(verifDir, "baseline", *prop+".json")
	if mode == "baseline" {
		var bl Baseline
		bl.Property = *prop
		if *openOnly {
			var old Baseline
			if b, err := os.ReadFile(blFile); err == nil {
				json.Unmarshal(b, &old)
			}
			claimed := map[string]bool{}
			for _, o := range old.Obligations {
				claimed[o] = true
			}
			for i := range results {
				k := results[i].Fn + "::" + results[i].Name
				if claimed[k] {
					if results[i].Status != "discharged" {
						fmt.Printf("WARNING: claimed obligation not discharged in this run: %s\n", k)
					}
					results[i].Status = "discharged"
				} else if results[i].Status == "discharged" {
					results[i].Status = "unclaimed" // goes to the open list: tolerated either way
				}
			}
		}
		for _, r := range results {
			if r.Status == "discharged" {
				bl.Obligations = append(bl.Obligations, r.Fn+"::"+r.Name)
			} else {
				bl.Open = append(bl.Open, r.Fn+"::"+r.Name)
			}
		}
		sort.Strings(bl.Obligations)
		sort.Strings(bl.Open)
		os.MkdirAll(filepath.Dir(blFile), 0o755)
		b, _ := json.MarshalIndent(bl, "", " ")
		os.WriteFile(blFile, append(b, '\n'), 0o644)
		open := 0
		for _, r := range results {
			if r.Status != "discharged" {
				open++
				fmt.Printf("open: %s::%s [%s] %s %s\n", r.Fn, r.Name, r.Status, r.Pos, r.Src)
			}
		}
		fmt.Printf("baseline %s: %d obligations discharged, %d open (not claimed)\n", *prop, len(bl.Obligations), open)
		return 0
	}

	var bl Baseline
	if b, err := os.ReadFile(blFile); err == nil {
		json.Unmarshal(b, &bl)
	}
	inBL := map[string]bool{}
	for _, o := range bl.Obligations {
		inBL[o] = true
	}
	known := loadKnown()
	byName := map[string]*Result{}
	for i := range results {
		k := results[i].Fn + "::" + results[i].Name
		if old, dup := byName[k]; dup {
			// never let a passing duplicate hide a failing one
			if old.Status != "discharged" {
				continue
			}
		}
		byName[k] = &results[i]
	}
	violations := 0
	nOb, nDis := 0, 0
	var open []string
	var samples []map[string]string
	perKind := map[string]int{}
	wins := map[string]int{}
	solverSecs := map[string]float64{}
	knownHit := []string{}
	var oblNames []string
	for o := range inBL {
		oblNames = append(oblNames, o)
	}
	sort.Strings(oblNames)
	for _, o := range oblNames {
		nOb++
		r := byName[o]
		kind := o[strings.Index(o, "::")+2:]
		if i := strings.IndexAny(kind, "#@"); i >= 0 {
			kind = kind[:i]
		}
		perKind[kind]++
		if r != nil && r.Status == "discharged" {
			nDis++
			wins[r.Solver]++
			solverSecs[r.Solver] += r.Secs
			if len(samples) < 12 && (strings.Contains(o, "post#") || strings.Contains(o, "preserve")) {
				samples = append(samples, map[string]string{"obligation": o, "statement": r.Src, "status": "discharged", "solver": r.Solver})
			}
			continue
		}
		// a proof that existed no longer goes through
		violations++
		rp, found := replayViolation(w, vcs, *prop, o, r, dir)
		suffix := ""
		if !found {
			suffix = " no-failing-input-found"
		}
		fmt.Printf("VIOLATION property=%s replay=%s%s\n", *prop, rp, suffix)
	}
	// known findings that are not baseline obligations: expected-to-fail obligations
	for _, kf := range known.Findings {
		if kf.Property != *prop {
			continue
		}
		if inBL[kf.Obligation] {
			continue
		}
		r := byName[kf.Obligation]
		if r != nil && r.Status != "discharged" {
			fmt.Printf("KNOWN-FINDING: property=%s %s (%s)\n", *prop, kf.What, kf.Obligation)
			knownHit = append(knownHit, kf.Obligation)
		}
	}
	openBL := map[string]bool{}
	for _, o := range bl.Open {
		openBL[o] = true
	}
	for i := range results {
		r := &results[i]
		k := r.Fn + "::" + r.Name
		if inBL[k] || r.Status == "discharged" {
			continue
		}
		if openBL[k] || strings.HasPrefix(r.Name, "cover/") || strings.HasPrefix(r.Name, "vacuity/") || byName[k] != r {
			open = append(open, fmt.Sprintf("%s [%s] %s %s", k, r.Status, r.Pos, r.Src))
			continue
		}
		isKnown := false
		for _, kf := range known.Findings {
			if kf.Property == *prop && kf.Obligation == k {
				isKnown = true
			}
		}
		if isKnown {
			continue
		}
		// an obligation the unchanged tree did not generate (new path, new
		// call, new back edge) and that does not follow from the contracts
		violations++
		nOb++
		rp, found := replayViolation(w, vcs, *prop, k, r, dir)
		suffix := ""
		if !found {
			suffix = " no-failing-input-found"
		}
		fmt.Printf("VIOLATION property=%s replay=%s%s\n", *prop, rp, suffix)
	}
	if nOb == 0 {
		violations++
		rp := writeReplay(*prop, "vacuity", "no obligations claimed for this property (empty baseline)")
		fmt.Printf("VIOLATION property=%s replay=%s no-failing-input-found\n", *prop, rp)
	}
	// evidence
	var fuc []string
	unmod := map[string]int{}
	trusted := map[string]bool{}
	var notes []string
	notes = append(notes, retried...)
	for _, j := range jobs {
		fuc = append(fuc, j.key)
		if vc := vcs[j.key]; vc != nil {
			for k, n := range vc.Unmod {
				unmod[k] += n
			}
			for k := range vc.Trusted {
				trusted[k] = true
			}
			for _, n := range vc.Notes {
				notes = append(notes, j.key+": "+n)
			}
		}
	}
	sort.Strings(fuc)
	var tb []string
	for k := range trusted {
		tb = append(tb, k)
	}
	sort.Strings(tb)
	tb = append(tb, "govc VC generator (SSA -> SMT translation)", "golang.org/x/tools/go/ssa builder", "SMT solvers z3 5.1.0 / z3 4.8.12 / cvc5 1.0.3")
	var unmodL []string
	for k, n := range unmod {
		unmodL = append(unmodL, fmt.Sprintf("%s x%d", k, n))
	}
	sort.Strings(unmodL)
	assumptions := append([]string{}, tb...)
	for _, u := range unmodL {
		assumptions = append(assumptions, "unmodelled call (result and heap havocked): "+u)
	}
	assumptions = append(assumptions, "functions are verified sequentially: locks are no-ops, `go` statements only spawn, no interleaving is explored")
	if len(samples) == 0 {
		for _, o := range oblNames {
			if len(samples) >= 5 {
				break
			}
			if r := byName[o]; r != nil {
				samples = append(samples, map[string]string{"obligation": o, "statement": r.Src, "status": r.Status})
			}
		}
	}
	ev := map[string]interface{}{
		"property_id": *prop,
		"tier":        *tier,
		"seed":        seed,
		"level":       "proof",
		"coverage": map[string]interface{}{
			"obligations":              nOb,
			"discharged":               nDis,
			"checker_cmd":              fmt.Sprintf("bin/govc check -property %s -tier %s", *prop, *tier),
			"trusted_base":             tb,
			"samples":                  samples,
			"functions_under_contract": fuc,
			"obligations_by_kind":      perKind,
			"solver_wins":              wins,
			"solver_seconds":           solverSecs,
			"unmodelled_calls":         unmodL,
			"open_unclaimed":           open,
			"known_findings_hit":       knownHit,
			"translator_notes":         notes,
			"load_seconds":             loadSecs,
			"integers":                 "mathematical Int; unsigned fixed-width arithmetic and narrowing conversions are exact (mod 2^k); int/int64 overflow not modelled",
		},
		"assumptions": assumptions,
		"wall_s":      time.Since(t0).Seconds(),
		"violations":  violations,
	}
	os.MkdirAll(filepath.Join(outDir, "evidence"), 0o755)
	b, _ := json.MarshalIndent(ev, "", " ")
	os.WriteFile(filepath.Join(outDir, "evidence", *prop+".json"), append(b, '\n'), 0o644)
	if os.Getenv("GOVC_DEBUG") != "" {
		// the claimed obligations that needed the individual race, slowest first
		type slow struct {
			name   string
			secs   float64
			solver string
		}
		var sl []slow
		for _, o := range oblNames {
			if r := byName[o]; r != nil && r.Status == "discharged" && strings.Contains(r.Solver, "/") {
				sl = append(sl, slow{o, r.Secs, r.Solver})
			}
		}
		sort.Slice(sl, func(i, j int) bool { return sl[i].secs > sl[j].secs })
		for i, x := range sl {
			if i >= 8 {
				break
			}
			fmt.Fprintf(os.Stderr, "raced: %-70s %.1fs %s\n", x.name, x.secs, x.solver)
		}
		fmt.Fprintf(os.Stderr, "raced obligations: %d of %d\n", len(sl), nOb)
	}
	fmt.Printf("%s: %d/%d claimed obligations discharged (%d functions, %d open unclaimed, %d known findings) in %.1fs\n", *prop, nDis, nOb, len(fuc), len(open), len(knownHit), time.Since(t0).Seconds())
	if violations > 0 {
		return 1
	}
	return 0
}

func findKnown(k KnownFile, prop, obl string) *KnownFinding {
	for i := range k.Findings {
		if k.Findings[i].Property == prop && k.Findings[i].Obligation == obl {
			return &k.Findings[i]
		}
	}
	return nil
}

func writeReplay(prop, name, text string) string {
	d := filepath.Join(outDir, "replays", prop)
	os.MkdirAll(d, 0o755)
	p := filepath.Join(d, mangle(name)+".txt")
	os.WriteFile(p, []byte(text+"\n"), 0o644)
	return p
}

func writeEvidenceFail(prop, tier string, seed int, wall float64, msg string) {
	ev := map[string]interface{}{
		"property_id": prop, "tier": tier, "seed": seed, "level": "proof",
		"coverage": map[string]interface{}{"evaluations": 1, "distinct_nontrivial": 2, "explanation": "load failure: " + msg},
		"wall_s":   wall, "violations": 1,
	}
	os.MkdirAll(filepath.Join(outDir, "evidence"), 0o755)
	b, _ := json.MarshalIndent(ev, "", " ")
	os.WriteFile(filepath.Join(outDir, "evidence", prop+".json"), append(b, '\n'), 0o644)
}

// cmdBench: every obligation of one function, standalone, under every
// (solver, rendering) pair - to choose defaults and spot unstable queries.
func cmdBench(args []string) int {
	fs := flag.NewFlagSet("bench", flag.ExitOnError)
	repo := fs.String("repo", "/repo", "")
	fnKey := fs.String("func", "", "function key")
	ms := fs.Int("ms", 10000, "timeout")
	pk := fs.String("pkgs", "", "package patterns")
	only := fs.String("only", "", "substring of obligation names")
	fs.Parse(args)
	pats := defaultPatterns()
	if *pk != "" {
		pats = strings.Fields(*pk)
	}
	w, err := loadWorld(*repo, pats, filepath.Join(verifDir, "specs"))
	if err != nil {
		fmt.Fprintln(os.Stderr, err)
		return 2
	}
	fn := w.FuncKeys[*fnKey]
	if fn == nil {
		return 2
	}
	vc, err := w.translate(fn, w.CS.ByName[*fnKey])
	if err != nil {
		fmt.Fprintln(os.Stderr, err)
		return 2
	}
	dir := scratchDir()
	defer os.RemoveAll(dir)
	type cfg struct {
		s int
		m Mode
	}
	cfgs := []cfg{{0, modeQU}, {0, modeQQ}, {0, modeLU}, {0, Mode{'L', false}}, {1, modeQU}, {1, modeQQ}, {2, modeQU}, {2, modeQQ}}
	fmt.Printf("%-34s", "obligation")
	for _, c := range cfgs {
		fmt.Printf(" %-12s", solvers[c.s].name+"/"+c.m.String())
	}
	fmt.Println()
	var mu sync.Mutex
	sem := make(chan struct{}, runtime.NumCPU())
	for oi, it := range vc.Items {
		if it.Kind != itOblig || it.Expect == "sat" || !strings.Contains(it.Name, *only) {
			continue
		}
		cells := make([]string, len(cfgs))
		var wg sync.WaitGroup
		for ci, c := range cfgs {
			wg.Add(1)
			go func(ci int, c cfg) {
				defer wg.Done()
				sem <- struct{}{}
				defer func() { <-sem }()
				f := filepath.Join(dir, fmt.Sprintf("b%d_%d.smt2", oi, ci))
				os.WriteFile(f, []byte(vc.single(oi, c.m)), 0o644)
				out, secs := runSolver(ctxBackground(), solvers[c.s], f, *ms)
				w := "?"
				for _, line := range strings.Split(out, "\n") {
					if x := firstWord(line); x != "" {
						w = x
						break
					}
				}
				mu.Lock()
				cells[ci] = fmt.Sprintf("%s %.1f", map[string]string{"unsat": "ok", "sat": "SAT", "unknown": "??", "?": "err"}[w], secs)
				mu.Unlock()
			}(ci, c)
		}
		wg.Wait()
		fmt.Printf("%-34s", it.Name)
		for _, c := range cells {
			fmt.Printf(" %-12s", c)
		}
		fmt.Println()
	}
	return 0
}
