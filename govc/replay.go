package main

import (
	"context"
	"fmt"
	"os"
	"strings"
)

// replayViolation writes the replay file for a failed baseline obligation and,
// where a replay adapter exists for the function, runs the solver's
// counterexample against the real code. found reports whether a failing
// input was demonstrated on the real code.
func replayViolation(w *World, vcs map[string]*VC, prop, obl string, r *Result, dir string) (string, bool) {
	var b strings.Builder
	fmt.Fprintf(&b, "property: %s\nobligation: %s\n", prop, obl)
	if r == nil {
		fmt.Fprintf(&b, "status: missing (the obligation is no longer generated from the current source)\n")
		return writeReplay(prop, obl, b.String()), false
	}
	fmt.Fprintf(&b, "status: %s\nstatement: %s\nsource: %s\nsolver: %s (%.2fs)\n", r.Status, r.Src, r.Pos, r.Solver, r.Secs)
	if r.Detail != "" {
		fmt.Fprintf(&b, "detail:\n%s\n", r.Detail)
	}
	found := false
	if (r.Status == "refuted" || r.Status == "candidate") && r.Formula != "" {
		if r.Status == "candidate" {
			fmt.Fprintf(&b, "note: the solver could not decide the full query; the model below comes from the bounded-instance rendering and is only a candidate until replayed\n")
		}
		model := getModel(r.Formula, nil, 10000)
		fmt.Fprintf(&b, "\ncounter-model (solver output):\n%s\n", truncate(model, 20000))
		if ad := replayAdapters[r.Fn]; ad != nil && vcs[r.Fn] != nil {
			ok, transcript := ad(w, vcs[r.Fn], r, dir)
			fmt.Fprintf(&b, "\nreplay on the real code:\n%s\n", transcript)
			found = ok
		} else {
			fmt.Fprintf(&b, "\nno replay adapter for %s: the counter-model is not executed\n", r.Fn)
		}
	} else if r.Formula != "" {
		if src, err := os.ReadFile(r.Formula); err == nil {
			fmt.Fprintf(&b, "\nundecided query (%d bytes) kept out of the replay file; solver gave no model\n", len(src))
		}
	}
	return writeReplay(prop, obl, b.String()), found
}

type replayAdapter func(w *World, vc *VC, r *Result, dir string) (bool, string)

var replayAdapters = map[string]replayAdapter{}

func ctxBackground() context.Context { return context.Background() }
