package main

// Sorts, heaps, zero values, type facts.

import (
	"fmt"
	"go/types"
	"math/big"
	"sort"
	"strings"
)

// VC is the verification condition of one function.
type VC struct {
	Fn       string
	SortDecl []string // datatype declarations (in dependency order)
	FunDecl  []string // uninterpreted functions + axioms
	Items    []Item
	Notes    []string
	Unmod    map[string]int // unmodelled callee -> count
	Trusted  map[string]bool
	NOblig   int

	addrFuns []string
	nGlobals int
	nFuncs   int
	seqSeen  map[string]bool
	defReads map[string][]string
	Params   map[string]Term // parameter name -> SMT term (for model extraction)
	sortSeen map[string]bool
	funSeen  map[string]bool
	heapSort map[string]Sort
	tags     map[string]int
	tagTypes map[int]types.Type    // tag -> dynamic type
	implOf   map[string]types.Type // impl predicate name -> interface type
	strs     map[string]int
}

const (
	itDecl = iota
	itAssume
	itOblig
)

type Item struct {
	Kind   int
	Text   string // full SMT command for decl/assume; Bool term for oblig
	Alt    string // row updates as lambda arrays (z3 family); "" = same as Text
	AltC   string // row updates as bounded instances (under-constrained; only for candidate counter-models)
	AltU   string // clause with literal-range quantifiers unrolled (equivalent to Text); "" = same as Text
	Name   string
	Expect string // "unsat" (default) or "sat"
	Src    string
	Pos    string
	Vals   []string // terms worth printing in a model
}

func newVC(fn string) *VC {
	return &VC{Fn: fn, Params: map[string]Term{}, seqSeen: map[string]bool{}, defReads: map[string][]string{}, sortSeen: map[string]bool{}, funSeen: map[string]bool{}, heapSort: map[string]Sort{}, Unmod: map[string]int{}, Trusted: map[string]bool{}, tags: map[string]int{}, strs: map[string]int{}}
}

func (vc *VC) note(f string, a ...interface{}) {
	s := fmt.Sprintf(f, a...)
	for _, n := range vc.Notes {
		if n == s {
			return
		}
	}
	vc.Notes = append(vc.Notes, s)
}

func (vc *VC) declFun(name, decl string) {
	if vc.funSeen[name] {
		return
	}
	vc.funSeen[name] = true
	vc.FunDecl = append(vc.FunDecl, decl)
}

func isSeq(t types.Type) bool {
	n, ok := t.(*types.Named)
	return ok && n.Obj().Name() == "seq" && n.Obj().Pkg() == nil
}

// sortOf maps a Go type to its SMT sort, declaring struct datatypes on demand.
func (vc *VC) sortOf(t types.Type) Sort {
	if isSeq(t) {
		return SSeq
	}
	switch u := t.Underlying().(type) {
	case *types.Basic:
		if u.Info()&types.IsBoolean != 0 {
			return SBool_
		}
		if u.Info()&types.IsFloat != 0 || u.Info()&types.IsComplex != 0 {
			return "Real"
		}
		return SInt_
	case *types.Pointer, *types.Map, *types.Chan, *types.Signature:
		return SInt_
	case *types.Slice:
		return SSlc
	case *types.Interface:
		return SIfc
	case *types.Struct:
		return vc.structSort(t, u)
	case *types.Array:
		return Sort("(Array Int " + string(vc.sortOf(u.Elem())) + ")")
	case *types.Tuple:
		return "TUPLE"
	case *types.TypeParam:
		return SIfc
	}
	return SInt_
}

func structKey(t types.Type) string {
	if p, ok := t.(*types.Pointer); ok {
		t = p.Elem()
	}
	return typeKey(t)
}

func (vc *VC) structSort(t types.Type, st *types.Struct) Sort {
	name := "S_" + structKey(t)
	if vc.sortSeen[name] {
		return Sort(name)
	}
	vc.sortSeen[name] = true
	var fs []string
	for i := 0; i < st.NumFields(); i++ {
		fs = append(fs, fmt.Sprintf("(%s_%d %s)", name, i, vc.sortOf(st.Field(i).Type())))
	}
	if st.NumFields() == 0 {
		vc.SortDecl = append(vc.SortDecl, fmt.Sprintf("(declare-datatypes ((%s 0)) (((mk_%s))))", name, name))
	} else {
		vc.SortDecl = append(vc.SortDecl, fmt.Sprintf("(declare-datatypes ((%s 0)) (((mk_%s %s))))", name, name, strings.Join(fs, " ")))
	}
	return Sort(name)
}

func (vc *VC) zeroOf(t types.Type) Term {
	s := vc.sortOf(t)
	switch s {
	case SInt_:
		return Term{"0", SInt_}
	case SBool_:
		return Term{"false", SBool_}
	case "Real":
		return Term{"0.0", "Real"}
	case SSlc:
		return Term{"(mk-slice 0 0 0 0)", SSlc}
	case SIfc:
		return Term{"(mk-iface 0 0)", SIfc}
	case SSeq:
		return Term{"((as const (Array Int Int)) 0)", SSeq}
	}
	switch u := t.Underlying().(type) {
	case *types.Struct:
		if u.NumFields() == 0 {
			return Term{"mk_" + string(s), s}
		}
		var parts []string
		for i := 0; i < u.NumFields(); i++ {
			parts = append(parts, vc.zeroOf(u.Field(i).Type()).S)
		}
		return Term{"(mk_" + string(s) + " " + strings.Join(parts, " ") + ")", s}
	case *types.Array:
		return Term{fmt.Sprintf("((as const %s) %s)", s, vc.zeroOf(u.Elem()).S), s}
	}
	return Term{"0", SInt_}
}

func pow2(k int) string { return new(big.Int).Lsh(big.NewInt(1), uint(k)).String() }

// intRange returns (lo, hi, ok) for integer basic types.
func intRange(t types.Type) (string, string, bool) {
	b, ok := t.Underlying().(*types.Basic)
	if !ok || b.Info()&types.IsInteger == 0 {
		return "", "", false
	}
	switch b.Kind() {
	case types.Uint8:
		return "0", "255", true
	case types.Uint16:
		return "0", "65535", true
	case types.Uint32:
		return "0", "4294967295", true
	case types.Uint64, types.Uint, types.Uintptr:
		return "0", "18446744073709551615", true
	case types.Int8:
		return "(- 128)", "127", true
	case types.Int16:
		return "(- 32768)", "32767", true
	case types.Int32:
		return "(- 2147483648)", "2147483647", true
	case types.Int64, types.Int, types.UntypedInt, types.UntypedRune:
		return "(- 9223372036854775808)", "9223372036854775807", true
	}
	return "", "", false
}

func intBits(t types.Type) (bits int, unsigned bool, ok bool) {
	b, isb := t.Underlying().(*types.Basic)
	if !isb || b.Info()&types.IsInteger == 0 {
		return 0, false, false
	}
	switch b.Kind() {
	case types.Uint8:
		return 8, true, true
	case types.Uint16:
		return 16, true, true
	case types.Uint32:
		return 32, true, true
	case types.Uint64, types.Uint, types.Uintptr:
		return 64, true, true
	case types.Int8:
		return 8, false, true
	case types.Int16:
		return 16, false, true
	case types.Int32:
		return 32, false, true
	case types.Int64, types.Int, types.UntypedInt, types.UntypedRune:
		return 64, false, true
	}
	return 0, false, false
}

// typeFact returns a Bool term stating that x is a well-formed value of t
// (integer range, slice header shape, non-negative lengths), or "".
func (vc *VC) typeFact(x Term, t types.Type) string {
	if lo, hi, ok := intRange(t); ok {
		return fmt.Sprintf("(and (<= %s %s) (<= %s %s))", lo, x.S, x.S, hi)
	}
	switch u := t.Underlying().(type) {
	case *types.Slice:
		return fmt.Sprintf("(and (<= 0 (s-off %[1]s)) (<= 0 (s-len %[1]s)) (<= (s-len %[1]s) (s-cap %[1]s)) (<= 0 (s-base %[1]s)) (=> (= (s-base %[1]s) 0) (= (s-cap %[1]s) 0)))", x.S)
	case *types.Basic:
		if u.Info()&types.IsString != 0 {
			vc.needStr()
			return fmt.Sprintf("(<= 0 (strlen %s))", x.S)
		}
	case *types.Struct:
		var parts []string
		s := vc.sortOf(t)
		for i := 0; i < u.NumFields(); i++ {
			f := vc.typeFact(Term{fmt.Sprintf("(%s_%d %s)", s, i, x.S), vc.sortOf(u.Field(i).Type())}, u.Field(i).Type())
			if f != "" {
				parts = append(parts, f)
			}
		}
		if len(parts) > 0 {
			return "(and " + strings.Join(parts, " ") + ")"
		}
	case *types.Interface:
		base := fmt.Sprintf("(and (<= 0 (i-tag %[1]s)) (=> (= (i-tag %[1]s) 0) (= (i-val %[1]s) 0)))", x.S)
		if u.NumMethods() > 0 {
			// a non-nil value of static interface type I has a dynamic type implementing I
			return fmt.Sprintf("(and %s (=> (not (= (i-tag %s) 0)) (%s (i-tag %s))))", base, x.S, vc.implPred(t), x.S)
		}
		return base
	case *types.Pointer, *types.Map, *types.Chan:
		return fmt.Sprintf("(<= 0 %s)", x.S)
	}
	return ""
}

// globalAddr: package-level variables live at small distinct negative addresses
// (-1 .. -4095), disjoint from interior addresses and allocation references.
func (vc *VC) globalAddr(key string) string {
	name := "glob_" + key
	if !vc.funSeen[name] {
		vc.nGlobals++
		vc.declFun(name, fmt.Sprintf("(define-fun %s () Int (- %d))", name, vc.nGlobals))
	}
	return name
}

// implPred: "the dynamic type with this tag implements interface t".
func (vc *VC) implPred(t types.Type) string {
	name := "impl_" + typeKey(t)
	vc.declFun(name, fmt.Sprintf("(declare-fun %s (Int) Bool)", name))
	if vc.implOf == nil {
		vc.implOf = map[string]types.Type{}
	}
	if _, ok := vc.implOf[name]; !ok {
		vc.implOf[name] = t
		for tag, dt := range vc.tagTypes {
			vc.implFact(name, t, tag, dt)
		}
	}
	return name
}

// implFact: Go's type system decides whether a dynamic type implements an
// interface; the fact is stated for every (interface, tagged type) pair in use.
func (vc *VC) implFact(name string, iface types.Type, tag int, dt types.Type) {
	it, ok := iface.Underlying().(*types.Interface)
	if !ok {
		return
	}
	if _, isIface := dt.Underlying().(*types.Interface); isIface {
		return // an interface type is never a dynamic type
	}
	fact := fmt.Sprintf("(assert (%s %d))", name, tag)
	if !types.Implements(dt, it) {
		fact = fmt.Sprintf("(assert (not (%s %d)))", name, tag)
	}
	vc.declFun(fmt.Sprintf("implfact_%s_%d", name, tag), fact)
}

func (vc *VC) needStr() {
	vc.declFun("strlen", "(declare-fun strlen_raw (Int) Int)\n(declare-fun strat_raw (Int Int) Int)\n(define-fun strlen ((s Int)) Int (abs (strlen_raw s)))\n(define-fun strat ((s Int) (i Int)) Int (mod (strat_raw s i) 256))\n(assert (forall ((s Int)) (! (=> (= (strlen_raw s) 0) (= s 0)) :pattern ((strlen_raw s)))))")
}

// tagOf returns the integer tag of a dynamic type.
func (vc *VC) tagOf(t types.Type) string {
	k := shortKey(types.TypeString(t, nil))
	if n, ok := vc.tags[k]; ok {
		return fmt.Sprint(n)
	}
	// deterministic: hash into a large positive range; collisions are checked
	h := uint64(1469598103934665603)
	for i := 0; i < len(k); i++ {
		h = (h ^ uint64(k[i])) * 1099511628211
	}
	n := int(h%1000000007) + 1
	for _, o := range vc.tags {
		if o == n {
			n++
		}
	}
	vc.tags[k] = n
	if vc.tagTypes == nil {
		vc.tagTypes = map[int]types.Type{}
	}
	vc.tagTypes[n] = t
	for name, it := range vc.implOf {
		vc.implFact(name, it, n, t)
	}
	return fmt.Sprint(n)
}

// strConst interns a string constant and emits its length/characters.
func (vc *VC) strConst(s string) Term {
	vc.needStr()
	if s == "" {
		vc.declFun("strempty", "(assert (= (strlen 0) 0))")
		return Term{"0", SInt_}
	}
	if id, ok := vc.strs[s]; ok {
		return Term{fmt.Sprint(id), SInt_}
	}
	// ids of constants are small positive ints; other strings are unconstrained Ints,
	// so a non-constant string may equal a constant (same id = same contents).
	h := uint64(1469598103934665603)
	for i := 0; i < len(s); i++ {
		h = (h ^ uint64(s[i])) * 1099511628211
	}
	id := int(h%2000000011) + 1
	for _, o := range vc.strs {
		if o == id {
			id++
		}
	}
	vc.strs[s] = id
	var b strings.Builder
	fmt.Fprintf(&b, "(assert (= (strlen %d) %d))", id, len(s))
	if len(s) <= 64 {
		for i := 0; i < len(s); i++ {
			fmt.Fprintf(&b, "\n(assert (= (strat %d %d) %d))", id, i, s[i])
		}
	}
	vc.declFun(fmt.Sprintf("strconst_%d", id), b.String())
	return Term{fmt.Sprint(id), SInt_}
}

func sortedKeys(m map[string]string) []string {
	var ks []string
	for k := range m {
		ks = append(ks, k)
	}
	sort.Strings(ks)
	return ks
}
