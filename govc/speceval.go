package main

// Evaluation of contract expressions to SMT terms under a (current, old) state.

import (
	"golang.org/x/tools/go/ssa"
	"fmt"
	"go/constant"
	"go/types"
	"strconv"
	"strings"
)

type Val struct {
	T       Term
	Ty      types.Type
	Loc     *Addr // located struct/array value (T unused)
	From    *Addr // the location this value was read from (for modifies clauses)
	Cell    *Addr // a variable that lives in a cell: read in the state of evaluation (so old(v) works)
	Ptr     *Addr // pointer argument that is the address of a caller's field/element: *p is that location
	Nil     bool
	Untyped bool
}

type Env struct {
	t    *Tr
	vars map[string]Val
	cur  *State
	old  *State
	now  *State // inside old(...): the state now() evaluates in
	pkg  string
	pure bool // inside a define: no state access
	qdepth int // >0 inside a (non-unrolled) quantifier
	visitedHeap string // range-over-map loop: heap holding the set of keys already iterated
	abs    bool      // re-base quantified array reads to the bound variable (assumption rendering)
	unroll bool      // render literal-range quantifiers as conjunctions (candidate-model rendering)
	reads  *[]string // inside a define body: seq element reads (in terms of the parameters)
}

// seqFact: seq is a sequence of bytes; every element that is read gets its
// range fact (instantiated per term instead of a quantified axiom).
func (t *Tr) seqFact(el string) {
	if t.vc.seqSeen[el] {
		return
	}
	t.vc.seqSeen[el] = true
	t.assumeRaw(fmt.Sprintf("(and (<= 0 %s) (<= %s 255))", el, el))
}

type evalErr string

func efail(f string, a ...interface{}) { panic(evalErr(fmt.Sprintf(f, a...))) }

func (e *Env) with(name string, v Val) *Env {
	n := *e
	n.vars = make(map[string]Val, len(e.vars)+1)
	for k, x := range e.vars {
		n.vars[k] = x
	}
	n.vars[name] = v
	return &n
}

// Cl is a clause in two renderings: Q keeps quantifiers (used for proving),
// U unrolls literal-range quantifiers (used to search for candidate counter-models).
// A is Q with array reads at `offset + bound variable` re-based to the bound
// variable itself (better triggers); it is added next to Q when the clause is
// assumed, never used as the goal.
type Cl struct{ Q, U, A string }

func (e *Env) evalClause(x SExpr) (Cl, error) {
	eq := *e
	eq.unroll = false
	q, err := eq.evalBool(x)
	if err != nil {
		return Cl{}, err
	}
	eu := *e
	eu.unroll = true
	u, err := eu.evalBool(x)
	if err != nil {
		return Cl{}, err
	}
	ea := *e
	ea.unroll = false
	ea.abs = true
	a, err := ea.evalBool(x)
	if err != nil {
		return Cl{}, err
	}
	if a == q {
		a = ""
	}
	return Cl{q, u, a}, nil
}

// evalBool evaluates a clause to a Bool term; errors are returned.
func (e *Env) evalBool(x SExpr) (s string, err error) {
	defer func() {
		if r := recover(); r != nil {
			if ee, ok := r.(evalErr); ok {
				err = fmt.Errorf("%s", string(ee))
				return
			}
			panic(r)
		}
	}()
	v := e.eval(x)
	if v.T.Sort != SBool_ {
		efail("clause is not boolean (sort %s)", v.T.Sort)
	}
	return v.T.S, nil
}

func (e *Env) evalAny(x SExpr) (v Val, err error) {
	defer func() {
		if r := recover(); r != nil {
			if ee, ok := r.(evalErr); ok {
				err = fmt.Errorf("%s", string(ee))
				return
			}
			panic(r)
		}
	}()
	return e.rvalue(e.eval(x)), nil
}

// evalArg evaluates an argument for a parameter of the given type.
func (e *Env) evalArg(x SExpr, want types.Type) (v Val, err error) {
	defer func() {
		if r := recover(); r != nil {
			if ee, ok := r.(evalErr); ok {
				err = fmt.Errorf("%s", string(ee))
				return
			}
			panic(r)
		}
	}()
	return e.coerce(e.addrIfWanted(e.eval(x), want), want), nil
}

var tInt = types.Typ[types.Int]
var tBool = types.Typ[types.Bool]
var tString = types.Typ[types.String]

func intVal(s string) Val  { return Val{T: Term{s, SInt_}, Ty: tInt} }
func boolVal(s string) Val { return Val{T: Term{s, SBool_}, Ty: tBool} }

// rvalue turns a located value into a first-class term.
func (e *Env) rvalue(v Val) Val {
	if v.Cell != nil {
		if e.cur == nil {
			efail("state access in pure context")
		}
		return Val{T: e.t.load(e.cur, v.Cell), Ty: v.Ty}
	}
	if v.Loc != nil {
		if e.cur == nil {
			efail("state access in pure context")
		}
		x := e.t.load(e.cur, v.Loc)
		return Val{T: x, Ty: v.Ty}
	}
	return v
}

func (e *Env) eval(x SExpr) Val {
	t := e.t
	switch x := x.(type) {
	case *SInt:
		return Val{T: Term{smtInt(x.V), SInt_}, Ty: tInt, Untyped: true}
	case *SBool:
		if x.V {
			return boolVal("true")
		}
		return boolVal("false")
	case *SString:
		return Val{T: t.vc.strConst(x.V), Ty: tString}
	case *SIdent:
		return e.ident(x.Name)
	case *SUnary:
		v := e.rvalue(e.eval(x.X))
		switch x.Op {
		case "!":
			return boolVal(mkNot(v.T.S))
		case "-":
			return Val{T: Term{"(- " + v.T.S + ")", SInt_}, Ty: v.Ty}
		}
	case *SDeref:
		v := e.rvalue(e.eval(x.X))
		pt, ok := v.Ty.Underlying().(*types.Pointer)
		if !ok {
			efail("deref of non-pointer")
		}
		a := t.addrOfTerm(v.T.S, pt.Elem())
		if v.Ptr != nil {
			a = v.Ptr
		}
		if a.Kind == aStruct || a.Kind == aArray {
			return Val{Ty: pt.Elem(), Loc: a}
		}
		if e.cur == nil {
			efail("state access in pure context")
		}
		return Val{T: t.load(e.cur, a), Ty: pt.Elem()}
	case *SIte:
		c := e.rvalue(e.eval(x.C))
		a := e.rvalue(e.eval(x.A))
		b := e.rvalue(e.eval(x.B))
		a, b = e.unify(a, b)
		return Val{T: Term{fmt.Sprintf("(ite %s %s %s)", c.T.S, a.T.S, b.T.S), a.T.Sort}, Ty: a.Ty}
	case *SBinary:
		return e.binary(x)
	case *SSel:
		return e.selector(x)
	case *SIndex:
		return e.index(x)
	case *SSlice:
		v := e.rvalue(e.eval(x.X))
		if isStringType(v.Ty) {
			t.vc.needStr()
			t.declSubstr()
			lo, hi := "0", fmt.Sprintf("(strlen %s)", v.T.S)
			if x.Lo != nil {
				lo = e.rvalue(e.eval(x.Lo)).T.S
			}
			if x.Hi != nil {
				hi = e.rvalue(e.eval(x.Hi)).T.S
			}
			return Val{T: Term{fmt.Sprintf("(substr %s %s %s)", v.T.S, lo, hi), SInt_}, Ty: v.Ty}
		}
		if _, ok := v.Ty.Underlying().(*types.Slice); !ok {
			efail("slice expression on non-slice")
		}
		lo, hi := "0", fmt.Sprintf("(s-len %s)", v.T.S)
		if x.Lo != nil {
			lo = e.rvalue(e.eval(x.Lo)).T.S
		}
		if x.Hi != nil {
			hi = e.rvalue(e.eval(x.Hi)).T.S
		}
		return Val{T: Term{fmt.Sprintf("(mk-slice (s-base %s) %s %s %s)", v.T.S, linNorm(fmt.Sprintf("(+ (s-off %s) %s)", v.T.S, lo)), linNorm(fmt.Sprintf("(- %s %s)", hi, lo)), linNorm(fmt.Sprintf("(- (s-cap %s) %s)", v.T.S, lo))), SSlc}, Ty: v.Ty}
	case *SCall:
		return e.call(x)
	case *SQuant:
		return e.quant(x)
	case *SIs:
		v := e.rvalue(e.eval(x.X))
		ty, err := t.w.resolveType(x.Ty, e.pkg)
		if err != nil {
			efail("%v", err)
		}
		if v.T.Sort != SIfc {
			efail("`is` needs an interface value")
		}
		if _, isIface := ty.Underlying().(*types.Interface); isIface {
			return boolVal(fmt.Sprintf("(and (not (= (i-tag %s) 0)) (%s (i-tag %s)))", v.T.S, t.vc.implPred(ty), v.T.S))
		}
		return boolVal(fmt.Sprintf("(= (i-tag %s) %s)", v.T.S, t.vc.tagOf(ty)))
	case *SAssert:
		v := e.rvalue(e.eval(x.X))
		ty, err := t.w.resolveType(x.Ty, e.pkg)
		if err != nil {
			efail("%v", err)
		}
		if v.T.Sort != SIfc {
			efail("type assertion needs an interface value")
		}
		return e.unbox(v.T.S, ty)
	}
	efail("unsupported expression %T", x)
	return Val{}
}

func (e *Env) unbox(ifc string, ty types.Type) Val {
	t := e.t
	s := t.vc.sortOf(ty)
	if s == SInt_ {
		return Val{T: Term{fmt.Sprintf("(i-val %s)", ifc), SInt_}, Ty: ty}
	}
	if s == SIfc {
		return Val{T: Term{ifc, SIfc}, Ty: ty}
	}
	if e.cur == nil {
		efail("state access in pure context")
	}
	hn := "B_" + typeKey(ty)
	h := t.heapGet(e.cur, hn, Sort("(Array Int "+string(s)+")"))
	return Val{T: Term{fmt.Sprintf("(select %s (i-val %s))", h, ifc), s}, Ty: ty}
}

func (e *Env) ident(name string) Val {
	t := e.t
	if v, ok := e.vars[name]; ok {
		if v.Cell != nil {
			if e.cur == nil {
				efail("state access in pure context")
			}
			// a parameter spilled to a cell (captured by a closure): in the
			// pre-state the cell is not initialised yet - old(p) is the argument
			if pv, isParam := t.paramEnv[name]; isParam && e.now != nil && pv.Cell == nil && pv.T.S != "" {
				return pv
			}
			return Val{T: t.load(e.cur, v.Cell), Ty: v.Ty}
		}
		return v
	}
	switch name {
	case "nil":
		return Val{Nil: true}
	}
	// package-level constant or variable
	if e.pkg != "" {
		if obj := t.w.lookupQualified("", name, e.pkg); obj != nil {
			return e.object(obj)
		}
	}
	efail("unknown identifier %q", name)
	return Val{}
}

func (e *Env) object(obj types.Object) Val {
	t := e.t
	switch o := obj.(type) {
	case *types.Const:
		switch o.Val().Kind() {
		case constant.Int:
			return Val{T: Term{smtInt(o.Val().ExactString()), SInt_}, Ty: o.Type(), Untyped: true}
		case constant.Bool:
			return boolVal(o.Val().String())
		case constant.String:
			return Val{T: t.vc.strConst(constant.StringVal(o.Val())), Ty: tString}
		}
	case *types.Func:
		// a function name denotes its (constant) function value
		for k, fn := range t.w.FuncKeys {
			if fn.Object() == types.Object(o) {
				_ = k
				return Val{T: t.val(fn), Ty: o.Type()}
			}
		}
		efail("function %s has no body in this program", o.Name())
	case *types.Var:
		if o.Pkg() != nil && !t.inInit && t.w.roGlobal[globalKey(o.Pkg(), o.Name())] {
			// (a struct constant is read as a whole value, exactly as the code reads it)
			if _, isArr := o.Type().Underlying().(*types.Array); !isArr {
				return Val{T: t.roGlobalVal(globalKey(o.Pkg(), o.Name()), o.Type()), Ty: o.Type()}
			}
		}
		// global variable: load from its cell
		if e.cur == nil {
			efail("state access in pure context")
		}
		name := t.vc.globalAddr(mangle(shortKey(o.Pkg().Path() + "." + o.Name())))
		a := t.addrOfTerm(name, o.Type())
		if a.Kind == aStruct || a.Kind == aArray {
			return Val{Ty: o.Type(), Loc: a}
		}
		return Val{T: t.load(e.cur, a), Ty: o.Type()}
	}
	efail("unsupported object %v", obj)
	return Val{}
}

func derefStruct(ty types.Type) (types.Type, *types.Struct, bool) {
	if p, ok := ty.Underlying().(*types.Pointer); ok {
		if st, ok := p.Elem().Underlying().(*types.Struct); ok {
			return p.Elem(), st, true
		}
		return nil, nil, false
	}
	if st, ok := ty.Underlying().(*types.Struct); ok {
		return ty, st, false
	}
	return nil, nil, false
}

func findField(st *types.Struct, name string) int {
	for i := 0; i < st.NumFields(); i++ {
		if st.Field(i).Name() == name {
			return i
		}
	}
	return -1
}

func (e *Env) selector(x *SSel) Val {
	t := e.t
	// qualified identifier pkg.Name ?
	if id, ok := x.X.(*SIdent); ok {
		if _, isVar := e.vars[id.Name]; !isVar {
			if _, ok := t.w.ByName[id.Name]; ok {
				if obj := t.w.lookupQualified(id.Name, x.Sel, e.pkg); obj != nil {
					return e.object(obj)
				}
			}
		}
	}
	v := e.eval(x.X)
	if v.Loc != nil && v.Loc.Kind == aStruct {
		st := v.Ty.Underlying().(*types.Struct)
		i := findField(st, x.Sel)
		if i < 0 {
			return e.promoted(v, st, x.Sel)
		}
		return e.fieldOfLoc(v.Ty, i, v.Loc.Obj)
	}
	v = e.rvalue(v)
	sty, st, isPtr := derefStruct(v.Ty)
	if st == nil {
		efail("selector .%s on non-struct %v", x.Sel, v.Ty)
	}
	i := findField(st, x.Sel)
	if i < 0 {
		if isPtr {
			return e.promoted(Val{Ty: sty, Loc: &Addr{Kind: aStruct, Obj: v.T.S, Ty: sty}}, st, x.Sel)
		}
		efail("no field %s in %v", x.Sel, sty)
	}
	if isPtr {
		return e.fieldOfLoc(sty, i, v.T.S)
	}
	s := t.vc.sortOf(sty)
	ft := st.Field(i).Type()
	return Val{T: Term{fmt.Sprintf("(%s_%d %s)", s, i, v.T.S), t.vc.sortOf(ft)}, Ty: ft}
}

// promoted resolves a field reached through embedded structs.
func (e *Env) promoted(v Val, st *types.Struct, name string) Val {
	for i := 0; i < st.NumFields(); i++ {
		f := st.Field(i)
		if !f.Embedded() {
			continue
		}
		_, est, _ := derefStruct(f.Type())
		if est == nil {
			continue
		}
		if findField(est, name) >= 0 {
			inner := e.fieldOfLoc(v.Ty, i, v.Loc.Obj)
			if inner.Loc != nil {
				return e.fieldOfLoc(inner.Ty, findField(est, name), inner.Loc.Obj)
			}
			ety, _, _ := derefStruct(f.Type())
			return e.fieldOfLoc(ety, findField(est, name), inner.T.S)
		}
	}
	efail("no field %s", name)
	return Val{}
}

func (e *Env) fieldOfLoc(sty types.Type, i int, obj string) Val {
	t := e.t
	a := t.fieldAddr(sty, i, obj)
	ft := sty.Underlying().(*types.Struct).Field(i).Type()
	if a.Kind == aStruct || a.Kind == aArray {
		return Val{Ty: ft, Loc: a}
	}
	if e.cur == nil {
		efail("state access in pure context")
	}
	return Val{T: t.load(e.cur, a), Ty: ft, From: a}
}

func (e *Env) index(x *SIndex) Val {
	t := e.t
	v := e.eval(x.X)
	i := e.rvalue(e.eval(x.I))
	if v.Loc != nil && v.Loc.Kind == aArray {
		at := v.Ty.Underlying().(*types.Array)
		a := &Addr{Kind: aElem, Heap: elemHeapName(at.Elem()), Obj: v.Loc.Obj, Idx: i.T.S, Ty: at.Elem()}
		return Val{T: t.load(e.cur, a), Ty: at.Elem()}
	}
	v = e.rvalue(v)
	if isSeq(v.Ty) {
		// seq is a sequence of bytes: every element read is in [0,255]
		el := fmt.Sprintf("(select %s %s)", v.T.S, i.T.S)
		if e.qdepth == 0 {
			if e.pure {
				if e.reads != nil {
					*e.reads = append(*e.reads, el)
				}
			} else {
				t.seqFact(el)
			}
		}
		return Val{T: Term{el, SInt_}, Ty: tInt}
	}
	switch u := v.Ty.Underlying().(type) {
	case *types.Slice:
		if e.cur == nil {
			efail("state access in pure context")
		}
		a := &Addr{Kind: aElem, Heap: elemHeapName(u.Elem()), Obj: fmt.Sprintf("(s-base %s)", v.T.S), Idx: linNorm(fmt.Sprintf("(+ (s-off %s) %s)", v.T.S, i.T.S)), Ty: u.Elem()}
		return Val{T: t.load(e.cur, a), Ty: u.Elem()}
	case *types.Pointer:
		if at, ok := u.Elem().Underlying().(*types.Array); ok {
			a := &Addr{Kind: aElem, Heap: elemHeapName(at.Elem()), Obj: v.T.S, Idx: i.T.S, Ty: at.Elem()}
			return Val{T: t.load(e.cur, a), Ty: at.Elem()}
		}
	case *types.Array:
		return Val{T: Term{fmt.Sprintf("(select %s %s)", v.T.S, i.T.S), t.vc.sortOf(u.Elem())}, Ty: u.Elem()}
	case *types.Map:
		if e.cur == nil {
			efail("state access in pure context")
		}
		_, mv := t.mapHeaps(e.cur, u)
		i = e.coerce(i, u.Key())
		return Val{T: Term{fmt.Sprintf("(select (select %s %s) %s)", mv, v.T.S, i.T.S), t.vc.sortOf(u.Elem())}, Ty: u.Elem()}
	case *types.Basic:
		if u.Info()&types.IsString != 0 {
			t.vc.needStr()
			return Val{T: Term{fmt.Sprintf("(strat %s %s)", v.T.S, i.T.S), SInt_}, Ty: types.Typ[types.Uint8]}
		}
	}
	efail("cannot index %v", v.Ty)
	return Val{}
}

// coerce adapts an untyped nil / literal to the wanted type.
func (e *Env) coerce(v Val, want types.Type) Val {
	if v.Nil {
		return Val{T: e.t.vc.zeroOf(want), Ty: want}
	}
	return v
}

func (e *Env) unify(a, b Val) (Val, Val) {
	if a.Nil && b.Nil {
		efail("nil == nil")
	}
	if a.Nil {
		a = e.coerce(a, b.Ty)
	}
	if b.Nil {
		b = e.coerce(b, a.Ty)
	}
	if a.T.Sort == "Real" && b.T.Sort == SInt_ {
		b = Val{T: Term{"(to_real " + b.T.S + ")", "Real"}, Ty: a.Ty}
	}
	if b.T.Sort == "Real" && a.T.Sort == SInt_ {
		a = Val{T: Term{"(to_real " + a.T.S + ")", "Real"}, Ty: b.Ty}
	}
	if a.T.Sort != b.T.Sort {
		efail("operands have different sorts: %s vs %s", a.T.Sort, b.T.Sort)
	}
	return a, b
}

func (e *Env) binary(x *SBinary) Val {
	t := e.t
	if x.Op == "in" {
		k := e.rvalue(e.eval(x.X))
		m := e.rvalue(e.eval(x.Y))
		mt, ok := m.Ty.Underlying().(*types.Map)
		if !ok {
			efail("`in` needs a map")
		}
		md, _ := t.mapHeaps(e.cur, mt)
		return boolVal(fmt.Sprintf("(select (select %s %s) %s)", md, m.T.S, k.T.S))
	}
	a := e.rvalue(e.eval(x.X))
	b := e.rvalue(e.eval(x.Y))
	switch x.Op {
	case "==>":
		return boolVal(fmt.Sprintf("(=> %s %s)", a.T.S, b.T.S))
	case "<==>":
		return boolVal(fmt.Sprintf("(= %s %s)", a.T.S, b.T.S))
	case "&&":
		return boolVal(mkAnd(a.T.S, b.T.S))
	case "||":
		return boolVal(mkOr(a.T.S, b.T.S))
	case "==", "!=":
		a, b = e.unify(a, b)
		var s string
		if _, isSl := a.Ty.Underlying().(*types.Slice); isSl && (a.T.S == "(mk-slice 0 0 0 0)" || b.T.S == "(mk-slice 0 0 0 0)") {
			o := a
			if a.T.S == "(mk-slice 0 0 0 0)" {
				o = b
			}
			s = fmt.Sprintf("(= (s-base %s) 0)", o.T.S)
		} else {
			s = fmt.Sprintf("(= %s %s)", a.T.S, b.T.S)
		}
		if x.Op == "!=" {
			s = mkNot(s)
		}
		return boolVal(s)
	case "<", "<=", ">", ">=":
		return boolVal(fmt.Sprintf("(%s %s %s)", x.Op, a.T.S, b.T.S))
	case "+":
		if a.T.Sort == SInt_ && isStringType(a.Ty) {
			return Val{T: Term{t.strConcat(a.T.S, b.T.S), SInt_}, Ty: a.Ty}
		}
		return Val{T: Term{foldArith("+", a.T.S, b.T.S), SInt_}, Ty: pickTy(a, b)}
	case "-":
		return Val{T: Term{foldArith("-", a.T.S, b.T.S), SInt_}, Ty: pickTy(a, b)}
	case "*":
		return Val{T: Term{foldArith("*", a.T.S, b.T.S), SInt_}, Ty: pickTy(a, b)}
	case "/":
		return Val{T: Term{fmt.Sprintf("(div %s %s)", a.T.S, b.T.S), SInt_}, Ty: pickTy(a, b)}
	case "%":
		return Val{T: Term{fmt.Sprintf("(mod %s %s)", a.T.S, b.T.S), SInt_}, Ty: pickTy(a, b)}
	}
	efail("unsupported operator %s", x.Op)
	return Val{}
}

func isStringType(t types.Type) bool {
	if t == nil {
		return false
	}
	b, ok := t.Underlying().(*types.Basic)
	return ok && b.Info()&types.IsString != 0
}

func pickTy(a, b Val) types.Type {
	if a.Untyped {
		return b.Ty
	}
	return a.Ty
}

func isLit(s string) (int64, bool) {
	if strings.HasPrefix(s, "(- ") && strings.HasSuffix(s, ")") {
		v, err := strconv.ParseInt(s[3:len(s)-1], 10, 64)
		return -v, err == nil
	}
	v, err := strconv.ParseInt(s, 10, 64)
	return v, err == nil
}

func foldArith(op, a, b string) string {
	x, ok1 := isLit(a)
	y, ok2 := isLit(b)
	if ok1 && ok2 && op == "*" {
		if x < 1<<30 && x > -(1<<30) && y < 1<<30 && y > -(1<<30) {
			return smtInt(strconv.FormatInt(x*y, 10))
		}
	}
	if op == "*" && !ok1 && !ok2 {
		return fmt.Sprintf("(* %s %s)", a, b)
	}
	return linNorm(fmt.Sprintf("(%s %s %s)", op, a, b))
}

func (e *Env) quant(x *SQuant) Val {
	t := e.t
	// bounded unrolling: forall i int :: lo <= i && i < hi ==> P with literal bounds
	if x.Forall && len(x.Vars) == 1 {
		if imp, ok := x.Body.(*SBinary); ok && imp.Op == "==>" {
			// small literal ranges are always unrolled (cheap, and they keep the reasoning ground);
			// large ones only in the unrolled renderings
			if lo, hi, ok := e.literalRange(x.Vars[0].Name, imp.X); ok && (hi-lo <= 16 || (e.unroll && hi-lo <= 128)) {
				var parts []string
				for i := lo; i < hi; i++ {
					ne := e.with(x.Vars[0].Name, Val{T: Term{smtInt(strconv.FormatInt(i, 10)), SInt_}, Ty: tInt, Untyped: true})
					ne.qdepth++ // no per-read range facts for unrolled instances (they swamp the arithmetic solver)
					g := ne.rvalue(ne.eval(imp.X))
					if g.T.S == "false" {
						continue
					}
					b := ne.rvalue(ne.eval(imp.Y))
					if g.T.S == "true" {
						parts = append(parts, b.T.S)
					} else {
						parts = append(parts, fmt.Sprintf("(=> %s %s)", g.T.S, b.T.S))
					}
				}
				return boolVal(mkAnd(parts...))
			}
			if base, k, ok := e.offsetRange(x.Vars[0].Name, imp.X); ok && (k <= 16 || e.unroll) {
				bv := e.rvalue(e.eval(base))
				var parts []string
				for i := int64(0); i < k; i++ {
					ne := e.with(x.Vars[0].Name, Val{T: Term{foldArith("+", bv.T.S, strconv.FormatInt(i, 10)), SInt_}, Ty: tInt})
					ne.qdepth++
					b := ne.rvalue(ne.eval(imp.Y))
					parts = append(parts, b.T.S)
				}
				return boolVal(mkAnd(parts...))
			}
		}
	}
	ne0 := *e
	ne0.qdepth++
	ne := &ne0
	var binders []string
	var facts []string
	for _, v := range x.Vars {
		ty, err := t.w.resolveType(v.Ty, e.pkg)
		if err != nil {
			efail("%v", err)
		}
		t.n++
		name := fmt.Sprintf("q_%s_%d", v.Name, t.n)
		s := t.vc.sortOf(ty)
		binders = append(binders, fmt.Sprintf("(%s %s)", name, s))
		ne = ne.with(v.Name, Val{T: Term{name, s}, Ty: ty})
		if _, _, ok := intRange(ty); ok && ty != tInt {
			facts = append(facts, t.vc.typeFact(Term{name, s}, ty))
		}
	}
	body := ne.rvalue(ne.eval(x.Body))
	if body.T.Sort != SBool_ {
		efail("quantifier body must be boolean")
	}
	b := body.T.S
	q := "forall"
	if !x.Forall {
		q = "exists"
		if len(facts) > 0 {
			b = mkAnd(append(facts, b)...)
		}
	} else if len(facts) > 0 {
		b = fmt.Sprintf("(=> %s %s)", mkAnd(facts...), b)
	}
	var names []string
	for _, bd := range binders {
		names = append(names, strings.Fields(strings.Trim(bd, "()"))[0])
	}
	if x.Forall && len(x.Triggers) == 0 && e.abs {
		for i, bd := range binders {
			if strings.HasSuffix(bd, " Int)") {
				if nb, ok := absolutize(b, names[i]); ok {
					b = nb
				}
			}
		}
	}
	if len(x.Triggers) > 0 {
		var pats []string
		for _, grp := range x.Triggers {
			var ts []string
			for _, tr := range grp {
				ts = append(ts, rawStringFuns(ne.rvalue(ne.eval(tr)).T.S))
			}
			pats = append(pats, ":pattern ("+strings.Join(ts, " ")+")")
		}
		return boolVal(fmt.Sprintf("(%s (%s) (! %s %s))", q, strings.Join(binders, " "), b, strings.Join(pats, " ")))
	}
	if pats := inferPatterns(b, names); pats != "" && x.Forall {
		return boolVal(fmt.Sprintf("(%s (%s) (! %s %s))", q, strings.Join(binders, " "), b, pats))
	}
	return boolVal(fmt.Sprintf("(%s (%s) %s)", q, strings.Join(binders, " "), b))
}

// literalRange recognises `lo <= i && i < hi` (in any order, possibly with
// extra conjuncts that are ignored) where lo and hi fold to literals.
// offsetRange recognises `L <= i && i < L + K` with K a literal: the instances
// are i = L + 0 .. L + K-1.
func (e *Env) offsetRange(name string, g SExpr) (SExpr, int64, bool) {
	b, ok := g.(*SBinary)
	if !ok || b.Op != "&&" {
		return nil, 0, false
	}
	lo, ok1 := b.X.(*SBinary)
	hi, ok2 := b.Y.(*SBinary)
	if !ok1 || !ok2 || lo.Op != "<=" || hi.Op != "<" {
		return nil, 0, false
	}
	if id, ok := lo.Y.(*SIdent); !ok || id.Name != name {
		return nil, 0, false
	}
	if id, ok := hi.X.(*SIdent); !ok || id.Name != name {
		return nil, 0, false
	}
	if usesIdent(lo.X, name) {
		return nil, 0, false
	}
	sum, ok := hi.Y.(*SBinary)
	if !ok || sum.Op != "+" {
		return nil, 0, false
	}
	k, ok := sum.Y.(*SInt)
	if !ok || fmt.Sprint(sum.X) != fmt.Sprint(lo.X) || !sameExpr(sum.X, lo.X) {
		return nil, 0, false
	}
	v, err := strconv.ParseInt(k.V, 10, 64)
	if err != nil || v > 128 {
		return nil, 0, false
	}
	return lo.X, v, true
}

func sameExpr(a, b SExpr) bool { return exprString(a) == exprString(b) }

func exprString(x SExpr) string {
	switch x := x.(type) {
	case *SIdent:
		return x.Name
	case *SInt:
		return x.V
	case *SBinary:
		return "(" + exprString(x.X) + x.Op + exprString(x.Y) + ")"
	case *SUnary:
		return x.Op + exprString(x.X)
	case *SSel:
		return exprString(x.X) + "." + x.Sel
	case *SIndex:
		return exprString(x.X) + "[" + exprString(x.I) + "]"
	case *SCall:
		s := exprString(x.Fun) + "("
		for _, a := range x.Args {
			s += exprString(a) + ","
		}
		return s + ")"
	}
	return fmt.Sprintf("%p", x)
}

func (e *Env) literalRange(name string, g SExpr) (int64, int64, bool) {
	var conj []SExpr
	var flat func(SExpr)
	flat = func(x SExpr) {
		if b, ok := x.(*SBinary); ok && b.Op == "&&" {
			flat(b.X)
			flat(b.Y)
			return
		}
		conj = append(conj, x)
	}
	flat(g)
	if len(conj) != 2 {
		return 0, 0, false
	}
	var lo, hi int64
	var haveLo, haveHi bool
	tryLit := func(x SExpr) (v int64, ok bool) {
		defer func() {
			if r := recover(); r != nil {
				if _, isE := r.(evalErr); isE {
					ok = false
					return
				}
				panic(r)
			}
		}()
		if usesIdent(x, name) {
			return 0, false
		}
		val := e.rvalue(e.eval(x))
		return isLit(val.T.S)
	}
	for _, c := range conj {
		b, ok := c.(*SBinary)
		if !ok {
			return 0, 0, false
		}
		lid, lIs := b.X.(*SIdent)
		rid, rIs := b.Y.(*SIdent)
		switch {
		case rIs && rid.Name == name && (b.Op == "<=" || b.Op == "<"):
			v, ok := tryLit(b.X)
			if !ok {
				return 0, 0, false
			}
			if b.Op == "<" {
				v++
			}
			lo, haveLo = v, true
		case lIs && lid.Name == name && (b.Op == "<" || b.Op == "<="):
			v, ok := tryLit(b.Y)
			if !ok {
				return 0, 0, false
			}
			if b.Op == "<=" {
				v++
			}
			hi, haveHi = v, true
		default:
			return 0, 0, false
		}
	}
	if !haveLo || !haveHi {
		return 0, 0, false
	}
	return lo, hi, true
}

func usesIdent(x SExpr, name string) bool {
	switch x := x.(type) {
	case *SIdent:
		return x.Name == name
	case *SUnary:
		return usesIdent(x.X, name)
	case *SBinary:
		return usesIdent(x.X, name) || usesIdent(x.Y, name)
	case *SSel:
		return usesIdent(x.X, name)
	case *SIndex:
		return usesIdent(x.X, name) || usesIdent(x.I, name)
	case *SSlice:
		return usesIdent(x.X, name) || (x.Lo != nil && usesIdent(x.Lo, name)) || (x.Hi != nil && usesIdent(x.Hi, name))
	case *SCall:
		if usesIdent(x.Fun, name) {
			return true
		}
		for _, a := range x.Args {
			if usesIdent(a, name) {
				return true
			}
		}
	case *SQuant:
		return usesIdent(x.Body, name)
	case *SIs:
		return usesIdent(x.X, name)
	case *SAssert:
		return usesIdent(x.X, name)
	case *SDeref:
		return usesIdent(x.X, name)
	case *SIte:
		return usesIdent(x.C, name) || usesIdent(x.A, name) || usesIdent(x.B, name)
	}
	return false
}

func (e *Env) call(x *SCall) Val {
	t := e.t
	id, ok := x.Fun.(*SIdent)
	if !ok {
		// conversion with qualified type, e.g. http2.ErrCode(x): treat pkg.Type(x) as identity
		if sel, ok := x.Fun.(*SSel); ok && len(x.Args) == 1 {
			if pid, ok := sel.X.(*SIdent); ok {
				if obj := t.w.lookupQualified(pid.Name, sel.Sel, e.pkg); obj != nil {
					if tn, ok := obj.(*types.TypeName); ok {
						v := e.rvalue(e.eval(x.Args[0]))
						return Val{T: v.T, Ty: tn.Type()}
					}
				}
			}
		}
		efail("unsupported call")
	}
	switch id.Name {
	case "old":
		if e.old == nil {
			efail("old() not available here")
		}
		ne := *e
		ne.cur = e.old
		if ne.now == nil {
			ne.now = e.cur
		}
		return ne.rvalue(ne.eval(x.Args[0]))
	case "final":
		// final(p): the current content of parameter p's variable when p lives in a
		// cell (captured by a closure, or its address taken) and may have been
		// reassigned; for other expressions, the expression itself
		if idt, ok := x.Args[0].(*SIdent); ok && t.fn != nil && len(t.fn.Blocks) > 0 && e.cur != nil {
			for _, in := range t.fn.Blocks[0].Instrs {
				al, ok := in.(*ssa.Alloc)
				if !ok || al.Comment != idt.Name {
					continue
				}
				if _, isParam := t.paramEnv[idt.Name]; !isParam {
					continue
				}
				a := t.addrOf(al)
				if a.Kind == aStruct || a.Kind == aArray {
					break
				}
				return Val{T: t.load(e.cur, a), Ty: al.Type().Underlying().(*types.Pointer).Elem()}
			}
		}
		return e.rvalue(e.eval(x.Args[0]))
	case "now":
		// inside old(...): this operand is evaluated in the current state after all
		if e.now == nil {
			return e.rvalue(e.eval(x.Args[0]))
		}
		ne := *e
		ne.cur = e.now
		ne.now = nil
		return ne.rvalue(ne.eval(x.Args[0]))
	case "len", "cap":
		v := e.eval(x.Args[0])
		if v.Loc != nil && v.Loc.Kind == aArray {
			return intVal(fmt.Sprint(v.Ty.Underlying().(*types.Array).Len()))
		}
		v = e.rvalue(v)
		switch u := v.Ty.Underlying().(type) {
		case *types.Slice:
			if id.Name == "len" {
				return intVal(fmt.Sprintf("(s-len %s)", v.T.S))
			}
			return intVal(fmt.Sprintf("(s-cap %s)", v.T.S))
		case *types.Basic:
			t.vc.needStr()
			return intVal(fmt.Sprintf("(strlen %s)", v.T.S))
		case *types.Array:
			return intVal(fmt.Sprint(u.Len()))
		case *types.Map:
			card := "mapcard_" + typeKey(u)
			md, _ := t.mapHeaps(e.cur, u)
			ks := t.vc.sortOf(u.Key())
			t.vc.declFun(card, fmt.Sprintf("(declare-fun %s ((Array %s Bool)) Int)\n(assert (forall ((d (Array %s Bool))) (! (<= 0 (%s d)) :pattern ((%s d)))))", card, ks, ks, card, card))
			return intVal(fmt.Sprintf("(%s (select %s %s))", card, md, v.T.S))
		}
		efail("len of %v", v.Ty)
	case "visited":
		if e.visitedHeap == "" {
			efail("visited() is only available in the invariant of a range-over-map loop")
		}
		k := e.rvalue(e.eval(x.Args[0]))
		ks := t.vc.heapSort[e.visitedHeap]
		return boolVal(fmt.Sprintf("(select %s %s)", t.heapGet(e.cur, e.visitedHeap, ks), k.T.S))
	case "at", "oldat":
		// at(s, a): the element of slice s's backing array at absolute index a;
		// oldat(s, a): the same location in the pre-state (s and a evaluated now)
		v := e.rvalue(e.eval(x.Args[0]))
		sl, ok := v.Ty.Underlying().(*types.Slice)
		if !ok {
			efail("at() needs a slice")
		}
		i := e.rvalue(e.eval(x.Args[1]))
		if e.cur == nil {
			efail("state access in pure context")
		}
		a := &Addr{Kind: aElem, Heap: elemHeapName(sl.Elem()), Obj: fmt.Sprintf("(s-base %s)", v.T.S), Idx: linNorm(i.T.S), Ty: sl.Elem()}
		if id.Name == "oldat" {
			if e.old == nil {
				efail("oldat() not available here")
			}
			return Val{T: t.load(e.old, a), Ty: sl.Elem()}
		}
		return Val{T: t.load(e.cur, a), Ty: sl.Elem()}
	case "nonnilptr":
		// the pointer held by an interface value is not nil
		v := e.rvalue(e.eval(x.Args[0]))
		if v.T.Sort != SIfc {
			efail("nonnilptr() needs an interface value")
		}
		return boolVal(fmt.Sprintf("(not (= (i-val %s) 0))", v.T.S))
	case "isobj":
		// a reference to a separately allocated object (not an interior pointer, not nil)
		v := e.rvalue(e.eval(x.Args[0]))
		return boolVal(fmt.Sprintf("(> %s 0)", refOf(v)))
	case "allocated":
		v := e.rvalue(e.eval(x.Args[0]))
		return boolVal(fmt.Sprintf("(< %s %s)", refOf(v), t.next(e.cur)))
	case "fresh":
		if e.old == nil {
			efail("fresh() needs an old state")
		}
		v := e.rvalue(e.eval(x.Args[0]))
		r := refOf(v)
		return boolVal(fmt.Sprintf("(and (<= %s %s) (< %s %s))", t.next(e.old), r, r, t.next(e.cur)))
	case "base":
		v := e.rvalue(e.eval(x.Args[0]))
		return intVal(fmt.Sprintf("(s-base %s)", v.T.S))
	case "off":
		v := e.rvalue(e.eval(x.Args[0]))
		return intVal(fmt.Sprintf("(s-off %s)", v.T.S))
	case "int", "uint8", "byte", "uint16", "uint32", "uint64", "int64", "int32", "uint":
		v := e.rvalue(e.eval(x.Args[0]))
		return Val{T: v.T, Ty: types.Universe.Lookup(id.Name).Type()}
	case "string":
		v := e.rvalue(e.eval(x.Args[0]))
		if v.T.Sort == SSlc {
			t.vc.needStr()
			t.vc.declFun("str_of", "(declare-fun str_of (Slice) Int)")
			return Val{T: Term{fmt.Sprintf("(str_of %s)", v.T.S), SInt_}, Ty: tString}
		}
		return Val{T: v.T, Ty: tString}
	case "min", "max":
		a := e.rvalue(e.eval(x.Args[0]))
		b := e.rvalue(e.eval(x.Args[1]))
		op := "<="
		if id.Name == "max" {
			op = ">="
		}
		return Val{T: Term{fmt.Sprintf("(ite (%s %s %s) %s %s)", op, a.T.S, b.T.S, a.T.S, b.T.S), SInt_}, Ty: pickTy(a, b)}
	}
	if g, ok := t.w.CS.Ghosts[id.Name]; ok {
		return e.ghostApp(g, x.Args)
	}
	if d, ok := t.w.CS.Defines[id.Name]; ok {
		return e.defineApp(d, x.Args)
	}
	if d, ok := t.w.CS.Preds[id.Name]; ok {
		if len(x.Args) != len(d.Params) {
			efail("pred %s: want %d args", d.Name, len(d.Params))
		}
		ne := &Env{t: t, vars: map[string]Val{}, cur: e.cur, old: e.old, pkg: d.Pkg, unroll: e.unroll, qdepth: e.qdepth}
		for i, p := range d.Params {
			ty, err := t.w.resolveType(p.Ty, d.Pkg)
			if err != nil {
				efail("pred %s: %v", d.Name, err)
			}
			v := e.eval(x.Args[i])
			if v.Loc != nil && v.Loc.Kind == aStruct {
				if _, isPtr := ty.Underlying().(*types.Pointer); isPtr {
					ne.vars[p.Name] = Val{T: Term{v.Loc.Obj, SInt_}, Ty: ty}
					continue
				}
			}
			ne.vars[p.Name] = e.coerce(e.rvalue(v), ty)
		}
		return ne.rvalue(ne.eval(d.Body))
	}
	// type conversion to a named type in scope: T(x)
	if e.pkg != "" {
		if obj := t.w.lookupQualified("", id.Name, e.pkg); obj != nil {
			if tn, ok := obj.(*types.TypeName); ok && len(x.Args) == 1 {
				v := e.rvalue(e.eval(x.Args[0]))
				return Val{T: v.T, Ty: tn.Type()}
			}
		}
	}
	efail("unknown spec function %q", id.Name)
	return Val{}
}

func refOf(v Val) string {
	switch v.T.Sort {
	case SSlc:
		return fmt.Sprintf("(s-base %s)", v.T.S)
	case SIfc:
		return fmt.Sprintf("(i-val %s)", v.T.S)
	}
	return v.T.S
}

func (t *Tr) ghostSort(g *GhostDecl) (Sort, []types.Type, types.Type) {
	var ptys []types.Type
	for _, p := range g.Params {
		ty, err := t.w.resolveType(p, g.Pkg)
		if err != nil {
			efail("ghost %s: %v", g.Name, err)
		}
		ptys = append(ptys, ty)
	}
	rty, err := t.w.resolveType(g.Result, g.Pkg)
	if err != nil {
		efail("ghost %s: %v", g.Name, err)
	}
	s := t.vc.sortOf(rty)
	for i := len(ptys) - 1; i >= 0; i-- {
		s = Sort(fmt.Sprintf("(Array %s %s)", t.vc.sortOf(ptys[i]), s))
	}
	return s, ptys, rty
}

// addrIfWanted: a located struct passed where a pointer is expected denotes its address.
func (e *Env) addrIfWanted(v Val, want types.Type) Val {
	if v.Loc != nil && (v.Loc.Kind == aStruct || v.Loc.Kind == aArray) {
		if _, isPtr := want.Underlying().(*types.Pointer); isPtr {
			return Val{T: Term{v.Loc.Obj, SInt_}, Ty: want}
		}
	}
	return e.rvalue(v)
}

func (e *Env) ghostApp(g *GhostDecl, args []SExpr) Val {
	t := e.t
	s, ptys, rty := t.ghostSort(g)
	if len(args) != len(ptys) {
		efail("ghost %s: want %d args", g.Name, len(ptys))
	}
	var as []string
	for i, a := range args {
		v := e.coerce(e.addrIfWanted(e.eval(a), ptys[i]), ptys[i])
		if v.T.Sort != t.vc.sortOf(ptys[i]) {
			efail("ghost %s: argument %d has sort %s, want %s", g.Name, i, v.T.Sort, t.vc.sortOf(ptys[i]))
		}
		as = append(as, v.T.S)
	}
	if g.IsVar {
		if e.cur == nil {
			efail("ghost var %s in pure context", g.Name)
		}
		h := t.heapGet(e.cur, "G_"+g.Name, s)
		for _, a := range as {
			h = fmt.Sprintf("(select %s %s)", h, a)
		}
		return Val{T: Term{h, t.vc.sortOf(rty)}, Ty: rty}
	}
	name := "gf_" + g.Name
	var ps []string
	for _, p := range ptys {
		ps = append(ps, string(t.vc.sortOf(p)))
	}
	if len(ps) == 0 {
		t.vc.declFun(name, fmt.Sprintf("(declare-const %s %s)", name, t.vc.sortOf(rty)))
		return Val{T: Term{name, t.vc.sortOf(rty)}, Ty: rty}
	}
	t.vc.declFun(name, fmt.Sprintf("(declare-fun %s (%s) %s)", name, strings.Join(ps, " "), t.vc.sortOf(rty)))
	return Val{T: Term{fmt.Sprintf("(%s %s)", name, strings.Join(as, " ")), t.vc.sortOf(rty)}, Ty: rty}
}

func (e *Env) defineApp(d *DefineDecl, args []SExpr) Val {
	t := e.t
	name := "df_" + d.Name
	if e.unroll {
		name = "dfu_" + d.Name
	}
	rty, err := t.w.resolveType(d.Result, d.Pkg)
	if err != nil {
		efail("define %s: %v", d.Name, err)
	}
	if !t.vc.funSeen[name] {
		t.vc.funSeen[name] = true
		// evaluate body in a pure env
		var reads []string
		ne := &Env{t: t, vars: map[string]Val{}, pkg: d.Pkg, pure: true, reads: &reads, unroll: e.unroll}
		var ps []string
		for _, p := range d.Params {
			ty, err := t.w.resolveType(p.Ty, d.Pkg)
			if err != nil {
				efail("define %s: %v", d.Name, err)
			}
			pn := "p_" + p.Name
			ne.vars[p.Name] = Val{T: Term{pn, t.vc.sortOf(ty)}, Ty: ty}
			ps = append(ps, fmt.Sprintf("(%s %s)", pn, t.vc.sortOf(ty)))
		}
		body := ne.rvalue(ne.eval(d.Body))
		kw := "define-fun"
		if d.Rec {
			kw = "define-fun-rec"
		}
		if e.unroll || d.Rec || len(ps) == 0 {
			tag := ""
			if e.unroll {
				tag = ";;U\n"
			}
			t.vc.FunDecl = append(t.vc.FunDecl, tag+fmt.Sprintf("(%s %s (%s) %s %s)", kw, name, strings.Join(ps, " "), t.vc.sortOf(rty), body.T.S))
		} else {
			// quantified rendering: an uninterpreted symbol with its definition as a
			// triggered axiom, so applications can serve as instantiation patterns
			var sorts, names []string
			for _, p := range d.Params {
				ty, _ := t.w.resolveType(p.Ty, d.Pkg)
				sorts = append(sorts, string(t.vc.sortOf(ty)))
				names = append(names, "p_"+p.Name)
			}
			app := fmt.Sprintf("(%s %s)", name, strings.Join(names, " "))
			t.vc.FunDecl = append(t.vc.FunDecl, fmt.Sprintf(";;Q\n(declare-fun %s (%s) %s)\n(assert (forall (%s) (! (= %s %s) :pattern (%s))))", name, strings.Join(sorts, " "), t.vc.sortOf(rty), strings.Join(ps, " "), app, body.T.S, app))
		}
		t.vc.defReads[name] = reads
	}
	if len(args) != len(d.Params) {
		efail("define %s: want %d args", d.Name, len(d.Params))
	}
	var as []string
	for _, a := range args {
		as = append(as, e.rvalue(e.eval(a)).T.S)
	}
	if e.qdepth == 0 && len(t.vc.defReads[name]) > 0 {
		var pairs []string
		for i, p := range d.Params {
			pairs = append(pairs, "p_"+p.Name, as[i])
		}
		for _, rd := range t.vc.defReads[name] {
			inst := substTokens(rd, pairs)
			if e.pure {
				if e.reads != nil {
					*e.reads = append(*e.reads, inst)
				}
			} else {
				t.seqFact(inst)
			}
		}
	}
	if len(as) == 0 {
		return Val{T: Term{name, t.vc.sortOf(rty)}, Ty: rty}
	}
	return Val{T: Term{fmt.Sprintf("(%s %s)", name, strings.Join(as, " ")), t.vc.sortOf(rty)}, Ty: rty}
}

func (t *Tr) strConcat(a, b string) string {
	t.vc.needStr()
	t.vc.declFun("strcat", "(declare-fun strcat (Int Int) Int)\n(assert (forall ((a Int) (b Int)) (! (= (strlen (strcat a b)) (+ (strlen a) (strlen b))) :pattern ((strcat a b)))))\n(assert (forall ((a Int)) (! (= (strcat a 0) a) :pattern ((strcat a 0)))))\n(assert (forall ((a Int)) (! (= (strcat 0 a) a) :pattern ((strcat 0 a)))))")
	return fmt.Sprintf("(strcat %s %s)", a, b)
}

func (t *Tr) mapHeaps(st *State, mt *types.Map) (string, string) {
	k := typeKey(mt)
	ks := t.vc.sortOf(mt.Key())
	vs := t.vc.sortOf(mt.Elem())
	md := t.heapGet(st, "MD_"+k, Sort(fmt.Sprintf("(Array Int (Array %s Bool))", ks)))
	mv := t.heapGet(st, "MV_"+k, Sort(fmt.Sprintf("(Array Int (Array %s %s))", ks, vs)))
	return md, mv
}

// substTokens replaces whole tokens (delimited by spaces and parentheses).
func substTokens(s string, pairs []string) string {
	var b strings.Builder
	i := 0
	for i < len(s) {
		c := s[i]
		if c == ' ' || c == '(' || c == ')' {
			b.WriteByte(c)
			i++
			continue
		}
		j := i
		for j < len(s) && s[j] != ' ' && s[j] != '(' && s[j] != ')' {
			j++
		}
		tok := s[i:j]
		rep := tok
		for k := 0; k+1 < len(pairs); k += 2 {
			if pairs[k] == tok {
				rep = pairs[k+1]
				break
			}
		}
		b.WriteString(rep)
		i = j
	}
	return b.String()
}

func (t *Tr) declSubstr() {
	t.vc.needStr()
	t.vc.declFun("substr", "(declare-fun substr (Int Int Int) Int)\n(assert (forall ((s Int) (a Int) (b Int)) (! (=> (and (<= 0 a) (<= a b) (<= b (strlen s))) (= (strlen (substr s a b)) (- b a))) :pattern ((substr s a b)))))\n(assert (forall ((s Int) (a Int) (b Int) (i Int)) (! (=> (and (<= 0 a) (<= a b) (<= b (strlen s)) (<= 0 i) (< i (- b a))) (= (strat (substr s a b) i) (strat s (+ a i)))) :pattern ((strat_raw (substr s a b) i)))))\n(assert (forall ((s Int)) (! (= (substr s 0 (strlen s)) s) :pattern ((substr s 0 (abs (strlen_raw s)))))))")
}
