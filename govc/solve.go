package main

import (
	"bytes"
	"context"
	"fmt"
	"os"
	"os/exec"
	"path/filepath"
	"strings"
	"sync"
	"time"
)

const prelude = `(set-option :produce-models true)
(set-logic ALL)
(declare-datatypes ((Slice 0)) (((mk-slice (s-base Int) (s-off Int) (s-len Int) (s-cap Int)))))
(declare-datatypes ((Iface 0)) (((mk-iface (i-tag Int) (i-val Int)))))
`

type Result struct {
	Fn      string
	Name    string
	Status  string // discharged | refuted | unknown | error
	Solver  string
	Secs    float64
	Model   string
	Detail  string
	Src     string
	Pos     string
	Expect  string
	Formula string
}

type solverSpec struct {
	name string
	args func(file string, ms int) []string
}

// racers: (solver, rendering) pairs tried on an obligation the first pass left open.
var racers = []struct {
	solver int
	mode   Mode
}{{0, modeQQ}, {0, modeQU}, {1, modeQU}, {0, modeLQ}, {1, modeQQ}, {2, modeQQ}, {0, modeLU}}

var solvers = []solverSpec{
	{"z3-new", func(f string, ms int) []string { return []string{"z3-new", fmt.Sprintf("-t:%d", ms), f} }},
	{"z3", func(f string, ms int) []string { return []string{"z3", fmt.Sprintf("-t:%d", ms), f} }},
	{"cvc5", func(f string, ms int) []string {
		return []string{"cvc5", "--incremental", fmt.Sprintf("--tlimit-per=%d", ms), f}
	}},
}

func (vc *VC) header(m Mode) string {
	var b strings.Builder
	b.WriteString(prelude)
	for _, s := range vc.SortDecl {
		b.WriteString(s)
		b.WriteString("\n")
	}
	for _, s := range vc.FunDecl {
		if strings.HasPrefix(s, ";;U\n") && !m.Unroll {
			continue
		}
		if strings.HasPrefix(s, ";;Q\n") && m.Unroll {
			continue
		}
		b.WriteString(s)
		b.WriteString("\n")
	}
	return b.String()
}

// script renders the whole VC as one incremental script; returns the
// obligation indices in check-sat order.
// A rendering mode: how row updates are expressed (quantified / lambda /
// bounded instances) and whether literal-range quantifiers in clauses are
// unrolled. Q and L, unrolled or not, are logically equivalent; C is weaker
// (fewer constraints) and is never used as a proof.
type Mode struct {
	Row    byte // 'Q', 'L', 'C'
	Unroll bool
}

var (
	modeQU = Mode{'Q', true}
	modeQQ = Mode{'Q', false}
	modeLU = Mode{'L', true}
	modeLQ = Mode{'L', false}
	modeCU = Mode{'C', true}
)

func (m Mode) String() string {
	u := "q"
	if m.Unroll {
		u = "u"
	}
	return string(m.Row) + u
}

func (it *Item) text(m Mode) string {
	switch m.Row {
	case 'L':
		if it.Alt != "" {
			return it.Alt
		}
	case 'C':
		if it.AltC != "" {
			return it.AltC
		}
	}
	if m.Unroll && it.AltU != "" {
		return it.AltU
	}
	return it.Text
}

func (vc *VC) script(alt Mode) (string, []int) {
	var b strings.Builder
	b.WriteString(vc.header(alt))
	var idx []int
	for i, it := range vc.Items {
		switch it.Kind {
		case itDecl, itAssume:
			b.WriteString(it.text(alt))
			b.WriteString("\n")
		case itOblig:
			idx = append(idx, i)
			fmt.Fprintf(&b, "; obligation %s\n(push 1)\n", it.Name)
			if it.Expect == "notunsat" {
				fmt.Fprintf(&b, "(set-option :timeout 1500)\n(assert %s)\n(check-sat)\n(pop 1)\n(set-option :timeout 4294967295)\n", it.text(alt))
				continue
			}
			if it.Expect != "sat" {
				fmt.Fprintf(&b, "(assert (not %s))\n", it.text(alt))
			} else {
				fmt.Fprintf(&b, "(assert %s)\n", it.text(alt))
			}
			b.WriteString("(check-sat)\n(pop 1)\n")
		}
	}
	return b.String(), idx
}

// single renders one obligation as a standalone script (with model output).
func (vc *VC) single(oi int, alt Mode) string {
	var b strings.Builder
	b.WriteString(vc.header(alt))
	for i, it := range vc.Items {
		if i >= oi {
			break
		}
		if it.Kind == itDecl || it.Kind == itAssume {
			b.WriteString(it.text(alt))
			b.WriteString("\n")
		}
	}
	it := vc.Items[oi]
	if it.Expect != "sat" {
		fmt.Fprintf(&b, "(assert (not %s))\n", it.text(alt))
	} else {
		fmt.Fprintf(&b, "(assert %s)\n", it.text(alt))
	}
	b.WriteString("(check-sat)\n")
	return b.String()
}

func runSolver(ctx context.Context, sp solverSpec, file string, ms int) (string, float64) {
	t0 := time.Now()
	args := sp.args(file, ms)
	cctx, cancel := context.WithTimeout(ctx, time.Duration(ms)*time.Millisecond*3+5*time.Second)
	defer cancel()
	cmd := exec.CommandContext(cctx, args[0], args[1:]...)
	var out bytes.Buffer
	cmd.Stdout = &out
	cmd.Stderr = &out
	if err := cmd.Run(); err != nil && out.Len() == 0 {
		fmt.Fprintf(&out, "(error \"%s: %v\")", args[0], err)
	}
	return out.String(), time.Since(t0).Seconds()
}

func firstWord(line string) string {
	line = strings.TrimSpace(line)
	switch {
	case strings.HasPrefix(line, "unsat"):
		return "unsat"
	case strings.HasPrefix(line, "sat"):
		return "sat"
	case strings.HasPrefix(line, "unknown"), strings.HasPrefix(line, "timeout"):
		return "unknown"
	}
	return ""
}

// solveVC discharges all obligations of a VC.
func solveVC(vc *VC, dir string, quickMs, fullMs int, par chan struct{}) []Result {
	base := filepath.Join(dir, mangle(vc.Fn))
	script, idx := vc.script(modeQQ)
	file := base + ".smt2"
	os.WriteFile(file, []byte(script), 0o644)
	results := make([]Result, len(idx))
	for k, oi := range idx {
		it := vc.Items[oi]
		results[k] = Result{Fn: vc.Fn, Name: it.Name, Status: "unknown", Src: it.Src, Pos: it.Pos, Expect: it.Expect}
		if results[k].Expect == "" {
			results[k].Expect = "unsat"
		}
	}
	if len(idx) == 0 {
		return results
	}
	// pass 1: z3-new on the incremental script
	par <- struct{}{}
	out, secs := runSolver(context.Background(), solvers[0], file, quickMs)
	<-par
	if os.Getenv("GOVC_DEBUG") != "" {
		fmt.Fprintf(os.Stderr, "pass1 %s: %.1fs for %d obligations\n", vc.Fn, secs, len(idx))
	}
	k := 0
	if hasSolverError(out) {
		// a rejected declaration or assertion silently weakens or empties later
		// queries: nothing this run answered is used
		for i := range results {
			results[i].Detail += "pass 1: solver reported an error: " + truncate(firstError(out), 300) + "\n"
		}
		out = ""
	}
	for _, line := range strings.Split(out, "\n") {
		w := firstWord(line)
		if w == "" {
			if strings.Contains(line, "error") && k < len(results) {
				results[k].Detail += line + "\n"
			}
			continue
		}
		if k >= len(results) {
			break
		}
		results[k].Solver = "z3-new"
		results[k].Secs = secs / float64(len(idx))
		if results[k].Expect == "notunsat" {
			if w == "unsat" {
				results[k].Status = "refuted"
				results[k].Detail = "the assumptions on this path are contradictory (or the return is unreachable): proofs below it are vacuous"
			} else {
				results[k].Status = "discharged"
			}
			k++
			continue
		}
		if w == results[k].Expect {
			results[k].Status = "discharged"
		} else if w == "unknown" {
			results[k].Status = "unknown"
		} else {
			results[k].Status = "refuted"
		}
		k++
	}
	// a vacuity guard the solver gave no answer for: not shown vacuous
	for k := range results {
		if results[k].Expect == "notunsat" && results[k].Status == "unknown" {
			results[k].Status = "discharged"
			results[k].Solver = "z3-new"
		}
	}
	// pass 2: everything not discharged, individually, all solvers raced
	var wg sync.WaitGroup
	for k := range results {
		if results[k].Status == "discharged" || results[k].Expect == "notunsat" {
			continue
		}
		wg.Add(1)
		go func(k int) {
			defer wg.Done()
			oi := idx[k]
			f := fmt.Sprintf("%s.%d", base, k)
			for _, m := range []Mode{modeQU, modeQQ, modeLU, modeLQ} {
				os.WriteFile(f+"."+m.String()+".smt2", []byte(vc.single(oi, m)), 0o644)
			}
			raceSingle(vc, &results[k], f, fullMs, par)
			if results[k].Status == "unknown" {
				// candidate counter-model from the bounded-instance rendering
				cf := f + ".Cu.smt2"
				os.WriteFile(cf, []byte(vc.single(oi, modeCU)), 0o644)
				par <- struct{}{}
				out, _ := runSolver(context.Background(), solvers[0], cf, fullMs)
				<-par
				w := ""
				for _, line := range strings.Split(out, "\n") {
					if w = firstWord(line); w != "" {
						break
					}
				}
				if os.Getenv("GOVC_DEBUG") != "" {
					fmt.Fprintf(os.Stderr, "candidate query %s %s: %q (%d bytes of output)\n", vc.Fn, results[k].Name, w, len(out))
				}
				if w == "sat" && results[k].Expect == "unsat" {
					results[k].Status = "candidate"
					results[k].Formula = cf
				} else if w == "sat" && results[k].Expect == "sat" {
					results[k].Detail += "satisfiable in the bounded-instance rendering (not conclusive)\n"
				}
			}
		}(k)
	}
	wg.Wait()
	return results
}

func raceSingle(vc *VC, r *Result, file string, ms int, par chan struct{}) {
	type ans struct {
		solver string
		word   string
		out    string
		secs   float64
		file   string
	}
	ctx, cancel := context.WithCancel(context.Background())
	defer cancel()
	racers := racers
	if r.Expect == "sat" {
		// reachability witnesses are advisory: a short look with two renderings
		racers = racers[:2]
		if ms > 10000 {
			ms = 10000
		}
	}
	ch := make(chan ans, len(racers))
	for _, rc := range racers {
		go func(sp solverSpec, m Mode) {
			par <- struct{}{}
			defer func() { <-par }()
			sf := file + "." + m.String() + ".smt2"
			if ctx.Err() != nil {
				ch <- ans{sp.name + "/" + m.String(), "", "", 0, sf}
				return
			}
			out, secs := runSolver(ctx, sp, sf, ms)
			w := ""
			for _, line := range strings.Split(out, "\n") {
				if w = firstWord(line); w != "" {
					break
				}
			}
			if hasSolverError(out) {
				w = "" // an answer given after a rejected command is not an answer to this query
			}
			ch <- ans{sp.name + "/" + m.String(), w, out, secs, sf}
		}(solvers[rc.solver], rc.mode)
	}
	var refuted *ans
	for range racers {
		a := <-ch
		if a.word == r.Expect {
			r.Status, r.Solver, r.Secs = "discharged", a.solver, a.secs
			cancel()
			return
		}
		if (a.word == "sat" || a.word == "unsat") && refuted == nil {
			aa := a
			refuted = &aa
			cancel() // a definitive answer: no need to wait for the slower solvers
			break
		}
		if a.word == "" && a.out != "" && ctx.Err() == nil {
			r.Detail += a.solver + ": " + truncate(a.out, 400) + "\n"
		}
	}
	if refuted != nil {
		r.Status, r.Solver, r.Secs = "refuted", refuted.solver, refuted.secs
		r.Formula = refuted.file
		return
	}
	r.Status = "unknown"
	r.Formula = file + ".Qu.smt2"
}

// hasSolverError: the solver rejected part of the script (parse or sort error).
func hasSolverError(out string) bool {
	for _, line := range strings.Split(out, "\n") {
		l := strings.TrimSpace(line)
		if strings.HasPrefix(l, "(error") && !strings.Contains(l, "model is not available") {
			return true
		}
		if strings.Contains(l, "Parse Error") {
			return true
		}
	}
	return false
}

func firstError(out string) string {
	for _, line := range strings.Split(out, "\n") {
		if strings.Contains(line, "(error") || strings.Contains(line, "Parse Error") {
			return strings.TrimSpace(line)
		}
	}
	return ""
}

func truncate(s string, n int) string {
	if len(s) > n {
		return s[:n] + "..."
	}
	return s
}

// getModel re-runs a refuted obligation asking for the values of the given terms.
func getModel(file string, terms []string, ms int) string {
	src, err := os.ReadFile(file)
	if err != nil {
		return ""
	}
	var b strings.Builder
	b.Write(src)
	if len(terms) > 0 {
		fmt.Fprintf(&b, "(get-value (%s))\n", strings.Join(terms, " "))
	} else {
		b.WriteString("(get-model)\n")
	}
	f := file + ".model.smt2"
	os.WriteFile(f, []byte(b.String()), 0o644)
	for _, sp := range solvers[:2] {
		out, _ := runSolver(context.Background(), sp, f, ms)
		// skip warnings: the first answer line decides
		rest := out
		for rest != "" {
			lines := strings.SplitN(rest, "\n", 2)
			if w := firstWord(lines[0]); w != "" {
				if w == "sat" && len(lines) == 2 {
					return lines[1]
				}
				break
			}
			if len(lines) < 2 {
				break
			}
			rest = lines[1]
		}
	}
	return ""
}
