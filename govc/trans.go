package main

// SSA function -> verification condition (weakest-precondition style,
// block-reachability encoding with merged states, loops cut at headers).

import (
	"os"
	"sort"
	"fmt"
	"go/token"
	"go/types"
	"strings"

	"golang.org/x/tools/go/ssa"
)

type State struct {
	h   map[string]string // heap name -> current term
	gen int               // generation: heaps absent from h resolve to <name>_g<gen>
}

func (s *State) clone() *State {
	n := &State{h: make(map[string]string, len(s.h)), gen: s.gen}
	for k, v := range s.h {
		n.h[k] = v
	}
	return n
}

const (
	aField = iota
	aElem
	aCell
	aStruct
	aArray
)

type fieldSel struct {
	sort Sort
	idx  int
	n    int
	st   *types.Struct
}

type Addr struct {
	Kind  int
	Heap  string
	Obj   string // reference term
	Idx   string // element index (aElem)
	Ty    types.Type // type of the stored value
	Path  []fieldSel // selections into a struct value stored at the location
	PathT types.Type // type after the path
}

type loopInfo struct {
	ord     int
	header  *ssa.BasicBlock
	blocks  map[*ssa.BasicBlock]bool
	lc      *LoopContract
	decName string
	env     map[string]Val // names bound at header
	nBack     int
	frameOnly map[string]bool
	hasFrame  bool
}

type deferRec struct {
	instr *ssa.Defer
	block *ssa.BasicBlock
}

type Tr struct {
	// translating a package initialiser: globals are being assigned, not constants yet
	inInit bool
	w   *World
	fn  *ssa.Function
	c   *Contract
	vc  *VC
	n   int
	pkg string // package path of fn (for resolving names in its contract)

	vals   map[ssa.Value]Term
	tuples map[ssa.Value][]Term
	addrs  map[ssa.Value]*Addr
	clos   map[ssa.Value]*ssa.MakeClosure

	reach    map[*ssa.BasicBlock]string
	out      map[*ssa.BasicBlock]*State
	outReach map[*ssa.BasicBlock]string // reach at end of block (may be narrowed by checks)
	edgeC    map[[2]*ssa.BasicBlock]string

	cur      *State
	curReach string
	curBlock *ssa.BasicBlock
	entry    *State

	loops     map[*ssa.BasicBlock]*loopInfo
	backEdge  map[[2]*ssa.BasicBlock]bool
	defers    []deferRec
	posts     map[int][]Cl // ensures index -> per-return formulas
	frameOb   []string
	kindCount map[string]int
	paramEnv  map[string]Val
	debugVals map[string][]ssa.Value // source var name -> values (from DebugRef)
	retCount  int
	closureCall  bool // the call being translated may run a closure of this function
	capWrites    map[*ssa.Alloc]bool // captured variables some closure does more than read
	keepInternal bool // havocAll: keep the internal (first-party accounting) ghost variables
	ptrArgs   map[string]ssa.Value // callMods: callee parameter name -> argument value
	preOnly   bool // applyContract: check the preconditions only (go statements)
	locals    []*ssa.Alloc
	genCount  int
	rangeIt   map[ssa.Value]*rangeState
	failed    bool
}

type rangeState struct {
	isMap   bool
	m       Term
	mt      *types.Map
	visited string // current visited-set term name is kept in state heap "RV_<n>"
	heap    string
	str     Term
	idxHeap string
}

func (t *Tr) fresh(prefix string, s Sort) string {
	t.n++
	name := fmt.Sprintf("%s_%d", prefix, t.n)
	t.vc.Items = append(t.vc.Items, Item{Kind: itDecl, Text: fmt.Sprintf("(declare-const %s %s)", name, s)})
	return name
}

func (t *Tr) define(prefix string, s Sort, term string) string {
	// short atoms need no definition
	if !strings.ContainsAny(term, " (") {
		return term
	}
	t.n++
	name := fmt.Sprintf("%s_%d", prefix, t.n)
	if os.Getenv("GOVC_NODECL") == "" && s != SBool_ && (strings.Contains(term, "(ite ") || (s == SInt_ && (strings.HasPrefix(term, "(+ ") || strings.HasPrefix(term, "(- ")))) {
		// (sums too: z3 flattens an expanded sum into the enclosing one, and a
		// pattern (+ off i) no longer matches (+ off j 1))
		// z3 expands define-fun before it reads patterns and rejects patterns
		// that contain ite: a conditional value that may occur in a trigger is
		// a constant with a defining equation instead of a macro
		// (candidate-model rendering keeps the macro: model search is much faster with it)
		t.vc.Items = append(t.vc.Items, Item{Kind: itDecl, Text: fmt.Sprintf("(declare-const %s %s)\n(assert (= %s %s))", name, s, name, term), AltC: fmt.Sprintf("(define-fun %s () %s %s)", name, s, term)})
		return name
	}
	t.vc.Items = append(t.vc.Items, Item{Kind: itDecl, Text: fmt.Sprintf("(define-fun %s () %s %s)", name, s, term)})
	return name
}

func (t *Tr) assumeRaw(cond string) {
	if cond == "" || cond == "true" {
		return
	}
	t.vc.Items = append(t.vc.Items, Item{Kind: itAssume, Text: fmt.Sprintf("(assert %s)", cond)})
}

func (t *Tr) guard(c string) string {
	if t.curReach == "true" {
		return c
	}
	return fmt.Sprintf("(=> %s %s)", t.curReach, c)
}

// assumeCl adds a two-rendering clause under the current reachability guard.
func (t *Tr) assumeCl(c Cl, raw bool) {
	if c.Q == "true" && c.U == "true" {
		return
	}
	q, u := c.Q, c.U
	if c.A != "" {
		q = "(and " + c.Q + " " + c.A + ")"
	}
	if !raw {
		q, u = t.guard(q), t.guard(u)
	}
	it := Item{Kind: itAssume, Text: fmt.Sprintf("(assert %s)", q)}
	if u != q {
		it.AltU = fmt.Sprintf("(assert %s)", u)
	}
	t.vc.Items = append(t.vc.Items, it)
}

// checkCl emits an obligation in both renderings and assumes it afterwards.
func (t *Tr) checkCl(name string, c Cl, src string, pos token.Pos) {
	p := ""
	if pos.IsValid() {
		pp := t.w.Prog.Fset.Position(pos)
		p = fmt.Sprintf("%s:%d", shortPath(pp.Filename), pp.Line)
	}
	it := Item{Kind: itOblig, Text: t.guard(c.Q), Name: name, Src: src, Pos: p}
	if c.U != c.Q {
		it.AltU = t.guard(c.U)
	}
	t.vc.Items = append(t.vc.Items, it)
	t.vc.NOblig++
	t.assumeCl(c, false)
}

// assume adds cond under the current reachability guard.
func (t *Tr) assume(cond string) {
	if cond == "" || cond == "true" {
		return
	}
	if t.curReach == "true" {
		t.assumeRaw(cond)
		return
	}
	t.assumeRaw(fmt.Sprintf("(=> %s %s)", t.curReach, cond))
}

// check emits an obligation at the current point and assumes it afterwards.
func (t *Tr) check(name, cond, src string, pos token.Pos) {
	p := ""
	if pos.IsValid() {
		pp := t.w.Prog.Fset.Position(pos)
		p = fmt.Sprintf("%s:%d", shortPath(pp.Filename), pp.Line)
	}
	goal := cond
	if t.curReach != "true" {
		goal = fmt.Sprintf("(=> %s %s)", t.curReach, cond)
	}
	t.vc.Items = append(t.vc.Items, Item{Kind: itOblig, Text: goal, Name: name, Src: src, Pos: p})
	t.vc.NOblig++
	t.assume(cond)
}

func shortPath(p string) string {
	if i := strings.Index(p, "/repo/"); i >= 0 {
		return p[i+6:]
	}
	return p
}

func (t *Tr) safety(kind, cond, src string, pos token.Pos) {
	i := t.kindCount[kind]
	t.kindCount[kind] = i + 1
	t.check(fmt.Sprintf("safety/%s#%d", kind, i), cond, src, pos)
}

// ---- heaps ----

func (t *Tr) heapGet(st *State, name string, s Sort) string {
	if v, ok := st.h[name]; ok {
		return v
	}
	if _, ok := t.vc.heapSort[name]; !ok {
		t.vc.heapSort[name] = s
	}
	ver := fmt.Sprintf("%s_g%d", name, st.gen)
	if !t.vc.funSeen[ver] {
		t.vc.funSeen[ver] = true
		t.vc.Items = append(t.vc.Items, Item{Kind: itDecl, Text: fmt.Sprintf("(declare-const %s %s)", ver, t.vc.heapSort[name])})
		if name == "NEXT" && st.gen == 0 {
			t.vc.Items = append(t.vc.Items, Item{Kind: itAssume, Text: fmt.Sprintf("(assert (< 0 %s))", ver)})
		}
	}
	return ver
}

func (t *Tr) heapSet(st *State, name string, s Sort, term string) {
	if _, ok := t.vc.heapSort[name]; !ok {
		t.vc.heapSort[name] = s
	}
	s = t.vc.heapSort[name]
	st.h[name] = t.define(name, s, term)
}

func (t *Tr) heapHavoc(st *State, name string) {
	s, ok := t.vc.heapSort[name]
	if !ok {
		return
	}
	st.h[name] = t.fresh(name, s)
}

// havocAll forgets every heap (optionally keeping ghost state): the state
// moves to a new generation, so heaps first touched later are unconstrained too.
func (t *Tr) havocAll(st *State, exceptGhost bool) {
	oldNext := t.next(st)
	// non-escaping locals cannot be written by anybody else
	type saved struct {
		a *Addr
		v string
	}
	var keepLocals []saved
	for _, al := range t.locals {
		if _, ok := t.vals[al]; !ok {
			continue
		}
		if al.Heap && t.closureCall && t.closureMayWrite(al) {
			continue // a closure of this function may be running: it can write the captured variables
		}
		a := t.addrOfTerm(t.vals[al].S, al.Type().Underlying().(*types.Pointer).Elem())
		if a.Kind == aArray {
			continue
		}
		v := t.load(st, a)
		keepLocals = append(keepLocals, saved{a, t.define("keep", v.Sort, v.S)})
	}
	// while a package initialiser runs, the globals it has assigned so far are
	// out of reach of the code it calls (other packages' initialisers, library
	// constructors): nothing outside this package refers to them yet
	type savedRow struct {
		heap string
		sort Sort
		base string
		row  string
	}
	var keepRows []savedRow
	if t.inInit && t.fn != nil && t.fn.Pkg != nil {
		var names []string
		for n := range t.fn.Pkg.Members {
			names = append(names, n)
		}
		sort.Strings(names)
		for _, n := range names {
			g, ok := t.fn.Pkg.Members[n].(*ssa.Global)
			if !ok || strings.HasPrefix(g.Name(), "init$") {
				continue
			}
			et := g.Type().Underlying().(*types.Pointer).Elem()
			a := t.addrOfTerm(t.val(g).S, et)
			if a.Kind == aArray || a.Kind == aStruct {
				continue
			}
			v := t.load(st, a)
			kv := t.define("keepg", v.Sort, v.S)
			keepLocals = append(keepLocals, saved{a, kv})
			if sl, ok := et.Underlying().(*types.Slice); ok {
				hn, hs := elemHeapName(sl.Elem()), t.elemHeapSort(sl.Elem())
				h := t.heapGet(st, hn, hs)
				base := fmt.Sprintf("(s-base %s)", kv)
				keepRows = append(keepRows, savedRow{hn, hs, base, t.define("keeprow", Sort("(Array Int "+string(t.vc.sortOf(sl.Elem()))+")"), fmt.Sprintf("(select %s %s)", h, base))})
			}
		}
	}
	defer func() {
		for _, k := range keepLocals {
			t.store(st, k.a, k.v)
		}
		for _, r := range keepRows {
			h := t.heapGet(st, r.heap, r.sort)
			t.heapSet(st, r.heap, r.sort, fmt.Sprintf("(store %s %s %s)", h, r.base, r.row))
		}
	}()
	keep := map[string]string{}
	for n := range t.vc.heapSort {
		if !strings.HasPrefix(n, "G_") {
			continue
		}
		g := t.w.CS.Ghosts[strings.TrimPrefix(n, "G_")]
		if exceptGhost || (t.keepInternal && g != nil && g.Internal) {
			keep[n] = t.heapGet(st, n, t.vc.heapSort[n])
		}
	}
	t.genCount++
	st.gen = t.genCount
	st.h = keep
	n := t.next(st)
	t.assume(fmt.Sprintf("(<= %s %s)", oldNext, n))
}

func (t *Tr) next(st *State) string { return t.heapGet(st, "NEXT", SInt_) }

func (t *Tr) bumpNext(st *State) {
	old := t.next(st)
	n := t.fresh("NEXT", SInt_)
	st.h["NEXT"] = n
	t.assume(fmt.Sprintf("(<= %s %s)", old, n))
}

func (t *Tr) allocRef(st *State) string {
	old := t.next(st)
	ref := t.define("ref", SInt_, old)
	t.heapSet(st, "NEXT", SInt_, fmt.Sprintf("(+ %s 1)", old))
	return ref
}

// assumeAllocated: any reference obtained from a parameter, a load or a call
// result denotes an object allocated before now.
func (t *Tr) assumeTyped(x Term, ty types.Type) { t.assumeTypedAt(x, ty, t.next(t.cur)) }

func (t *Tr) assumeTypedAt(x Term, ty types.Type, nx string) {
	if f := t.vc.typeFact(x, ty); f != "" {
		t.assume(f)
	}
	switch ty.Underlying().(type) {
	case *types.Pointer, *types.Map, *types.Chan:
		t.assume(fmt.Sprintf("(< %s %s)", x.S, nx))
	case *types.Slice:
		t.assume(fmt.Sprintf("(< (s-base %s) %s)", x.S, nx))
	case *types.Interface:
		t.assume(fmt.Sprintf("(< (i-val %s) %s)", x.S, nx))
	}
}

func fieldHeapName(st types.Type, f *types.Var) string {
	return "F_" + structKey(st) + "_" + f.Name()
}
func elemHeapName(et types.Type) string { return "E_" + typeKey(et) }
func cellHeapName(ty types.Type) string { return "C_" + typeKey(ty) }

func (t *Tr) elemHeapSort(et types.Type) Sort {
	return Sort("(Array Int (Array Int " + string(t.vc.sortOf(et)) + "))")
}

// Interior addresses (nested structs, escaping field/element pointers) are
// given by concrete injective functions into the negative integers, with
// pairwise disjoint ranges; allocation references are positive. Programs
// cannot observe numeric addresses, so any injective assignment is adequate.
func (t *Tr) addrFun(name string, arity int) {
	if t.vc.funSeen[name] {
		return
	}
	k := len(t.vc.addrFuns) + 1
	t.vc.addrFuns = append(t.vc.addrFuns, name)
	enc := func(v string) string { return fmt.Sprintf("(+ (* 2 (abs %s)) (ite (< %s 0) 1 0))", v, v) }
	if arity == 1 {
		t.vc.declFun(name, fmt.Sprintf("(define-fun %s ((p Int)) Int (- (- (+ (* %s 4096) %d)) 1))", name, enc("p"), k))
	} else {
		// (p, i): i is bounded in practice; pair by interleaving with a large stride
		t.vc.declFun(name, fmt.Sprintf("(define-fun %s ((p Int) (i Int)) Int (- (- (+ (* (+ (* %s 1099511627776) %s) 4096) %d)) 1))", name, enc("p"), enc("i"), k))
	}
}

func (t *Tr) subAddr(st types.Type, f *types.Var, obj string) string {
	name := "sub_" + structKey(st) + "_" + f.Name()
	t.addrFun(name, 1)
	return fmt.Sprintf("(%s %s)", name, obj)
}

// addrOf resolves the location a pointer-typed SSA value denotes.
func (t *Tr) addrOf(v ssa.Value) *Addr {
	if a, ok := t.addrs[v]; ok {
		return a
	}
	pt, ok := v.Type().Underlying().(*types.Pointer)
	if !ok {
		return nil
	}
	return t.addrOfTerm(t.val(v).S, pt.Elem())
}

func (t *Tr) addrOfTerm(ref string, elem types.Type) *Addr {
	switch elem.Underlying().(type) {
	case *types.Struct:
		return &Addr{Kind: aStruct, Obj: ref, Ty: elem}
	case *types.Array:
		return &Addr{Kind: aArray, Obj: ref, Ty: elem}
	}
	return &Addr{Kind: aCell, Heap: cellHeapName(elem), Obj: ref, Ty: elem}
}

func (t *Tr) applyPath(v string, path []fieldSel) string {
	for _, p := range path {
		v = fmt.Sprintf("(%s_%d %s)", p.sort, p.idx, v)
	}
	return v
}

func (t *Tr) updatePath(old string, path []fieldSel, nv string) string {
	if len(path) == 0 {
		return nv
	}
	p := path[0]
	inner := t.updatePath(fmt.Sprintf("(%s_%d %s)", p.sort, p.idx, old), path[1:], nv)
	var parts []string
	for i := 0; i < p.n; i++ {
		if i == p.idx {
			parts = append(parts, inner)
		} else {
			parts = append(parts, fmt.Sprintf("(%s_%d %s)", p.sort, i, old))
		}
	}
	return fmt.Sprintf("(mk_%s %s)", p.sort, strings.Join(parts, " "))
}

// load reads the value at address a in state st.
func (t *Tr) load(st *State, a *Addr) Term {
	ty := a.Ty
	if len(a.Path) > 0 {
		ty = a.PathT
	}
	s := t.vc.sortOf(ty)
	switch a.Kind {
	case aField, aCell:
		h := t.heapGet(st, a.Heap, Sort("(Array Int "+string(t.vc.sortOf(a.Ty))+")"))
		return Term{t.applyPath(fmt.Sprintf("(select %s %s)", h, a.Obj), a.Path), s}
	case aElem:
		h := t.heapGet(st, a.Heap, t.elemHeapSort(a.Ty))
		return Term{t.applyPath(fmt.Sprintf("(select (select %s %s) %s)", h, a.Obj, a.Idx), a.Path), s}
	case aArray:
		at := a.Ty.Underlying().(*types.Array)
		h := t.heapGet(st, elemHeapName(at.Elem()), t.elemHeapSort(at.Elem()))
		return Term{fmt.Sprintf("(select %s %s)", h, a.Obj), s}
	case aStruct:
		stt := a.Ty.Underlying().(*types.Struct)
		if stt.NumFields() == 0 {
			return Term{"mk_" + string(s), s}
		}
		var parts []string
		for i := 0; i < stt.NumFields(); i++ {
			fa := t.fieldAddr(a.Ty, i, a.Obj)
			parts = append(parts, t.load(st, fa).S)
		}
		return Term{fmt.Sprintf("(mk_%s %s)", s, strings.Join(parts, " ")), s}
	}
	panic("load: bad addr")
}

func (t *Tr) store(st *State, a *Addr, v string) {
	switch a.Kind {
	case aField, aCell:
		hs := Sort("(Array Int " + string(t.vc.sortOf(a.Ty)) + ")")
		h := t.heapGet(st, a.Heap, hs)
		nv := v
		if len(a.Path) > 0 {
			nv = t.updatePath(fmt.Sprintf("(select %s %s)", h, a.Obj), a.Path, v)
		}
		t.heapSet(st, a.Heap, hs, fmt.Sprintf("(store %s %s %s)", h, a.Obj, nv))
	case aElem:
		hs := t.elemHeapSort(a.Ty)
		h := t.heapGet(st, a.Heap, hs)
		nv := v
		if len(a.Path) > 0 {
			nv = t.updatePath(fmt.Sprintf("(select (select %s %s) %s)", h, a.Obj, a.Idx), a.Path, v)
		}
		t.heapSet(st, a.Heap, hs, fmt.Sprintf("(store %s %s (store (select %s %s) %s %s))", h, a.Obj, h, a.Obj, a.Idx, nv))
	case aArray:
		at := a.Ty.Underlying().(*types.Array)
		hn := elemHeapName(at.Elem())
		hs := t.elemHeapSort(at.Elem())
		h := t.heapGet(st, hn, hs)
		t.heapSet(st, hn, hs, fmt.Sprintf("(store %s %s %s)", h, a.Obj, v))
	case aStruct:
		stt := a.Ty.Underlying().(*types.Struct)
		s := t.vc.sortOf(a.Ty)
		vv := t.define("sv", s, v)
		for i := 0; i < stt.NumFields(); i++ {
			fa := t.fieldAddr(a.Ty, i, a.Obj)
			t.store(st, fa, fmt.Sprintf("(%s_%d %s)", s, i, vv))
		}
	}
}

// fieldAddr: address of field i of the struct of type sty located at obj.
func (t *Tr) fieldAddr(sty types.Type, i int, obj string) *Addr {
	stt := sty.Underlying().(*types.Struct)
	f := stt.Field(i)
	switch f.Type().Underlying().(type) {
	case *types.Struct:
		return &Addr{Kind: aStruct, Obj: t.subAddr(sty, f, obj), Ty: f.Type()}
	case *types.Array:
		return &Addr{Kind: aArray, Obj: t.subAddr(sty, f, obj), Ty: f.Type()}
	}
	return &Addr{Kind: aField, Heap: fieldHeapName(sty, f), Obj: obj, Ty: f.Type()}
}

// addrValue is the first-class (Int) value of an address, used when it escapes.
func (t *Tr) addrValue(a *Addr) string {
	switch a.Kind {
	case aStruct, aArray, aCell:
		return a.Obj
	case aField:
		name := "fld_" + strings.TrimPrefix(a.Heap, "F_")
		t.addrFun(name, 1)
		return fmt.Sprintf("(%s %s)", name, a.Obj)
	case aElem:
		name := "elt_" + strings.TrimPrefix(a.Heap, "E_")
		t.addrFun(name, 2)
		return fmt.Sprintf("(%s %s %s)", name, a.Obj, a.Idx)
	}
	return "0"
}

// zeroInit sets the object at a to the zero value of its type.
func (t *Tr) zeroInit(st *State, a *Addr) {
	switch a.Kind {
	case aStruct:
		stt := a.Ty.Underlying().(*types.Struct)
		for i := 0; i < stt.NumFields(); i++ {
			t.zeroInit(st, t.fieldAddr(a.Ty, i, a.Obj))
		}
	default:
		t.store(st, a, t.vc.zeroOf(a.Ty).S)
	}
}

// rangeUpdate builds the row of an element heap after elements
// [lo, lo+cnt) were overwritten: by inRange(i) (i = absolute index) when given,
// otherwise by arbitrary well-typed values. Everything else keeps oldRow.
// Two renderings: quantified (all solvers) and a lambda array (z3 family,
// quantifier-free, so counter-models can be produced).
func (t *Tr) rangeUpdate(oldRow, lo, cnt string, et types.Type, inRange func(i string) string) string {
	es := t.vc.sortOf(et)
	as := Sort("(Array Int " + string(es) + ")")
	t.n++
	name := fmt.Sprintf("row_%d", t.n)
	q := fmt.Sprintf("qr_%d", t.n)
	in := fmt.Sprintf("(and (<= %s %s) (< %s (+ %s %s)))", lo, q, q, lo, cnt)
	var a, b strings.Builder
	fmt.Fprintf(&a, "(declare-const %s %s)\n", name, as)
	fmt.Fprintf(&a, "(assert (forall ((%s Int)) (! (=> (not %s) (= (select %s %s) (select %s %s))) :pattern ((select %s %s)))))\n", q, in, name, q, oldRow, q, name, q)
	if inRange != nil {
		e := inRange(q)
		fmt.Fprintf(&a, "(assert (forall ((%s Int)) (! (=> %s (= (select %s %s) %s)) :pattern ((select %s %s)))))", q, in, name, q, e, name, q)
		fmt.Fprintf(&b, "(define-fun %s () %s (lambda ((%s Int)) (ite %s %s (select %s %s))))", name, as, q, in, e, oldRow, q)
	} else {
		hv := name + "_hv"
		elem := fmt.Sprintf("(select %s %s)", hv, q)
		if bits, uns, ok := intBits(et); ok && uns && bits < 64 {
			elem = fmt.Sprintf("(mod %s %s)", elem, pow2(bits))
		}
		if f := t.vc.typeFact(Term{fmt.Sprintf("(select %s %s)", name, q), es}, et); f != "" {
			fmt.Fprintf(&a, "(assert (forall ((%s Int)) (! %s :pattern ((select %s %s)))))", q, f, name, q)
		}
		fmt.Fprintf(&b, "(declare-const %s %s)\n(define-fun %s () %s (lambda ((%s Int)) (ite %s %s (select %s %s))))", hv, as, name, as, q, in, elem, oldRow, q)
	}
	// bounded instances around the written range (candidate models only)
	var c strings.Builder
	fmt.Fprintf(&c, "(declare-const %s %s)\n", name, as)
	for j := -40; j < 128; j++ {
		qi := fmt.Sprintf("(+ %s %d)", lo, j)
		if j < 0 {
			qi = fmt.Sprintf("(- %s %d)", lo, -j)
			fmt.Fprintf(&c, "(assert (= (select %s %s) (select %s %s)))\n", name, qi, oldRow, qi)
			continue
		}
		var e string
		if inRange != nil {
			e = fmt.Sprintf("(= (select %s %s) %s)", name, qi, inRange(qi))
		} else {
			e = t.vc.typeFact(Term{fmt.Sprintf("(select %s %s)", name, qi), es}, et)
			if e == "" {
				e = "true"
			}
		}
		fmt.Fprintf(&c, "(assert (ite (< %d %s) %s (= (select %s %s) (select %s %s))))\n", j, cnt, e, name, qi, oldRow, qi)
	}
	t.vc.Items = append(t.vc.Items, Item{Kind: itDecl, Text: a.String(), Alt: b.String(), AltC: c.String()})
	return name
}

// ---- values ----

func (t *Tr) val(v ssa.Value) Term {
	if x, ok := t.vals[v]; ok {
		return x
	}
	switch v := v.(type) {
	case *ssa.Const:
		return t.constant(v)
	case *ssa.Global:
		name := t.vc.globalAddr(mangle(shortKey(v.String())))
		x := Term{name, SInt_}
		t.vals[v] = x
		return x
	case *ssa.Function:
		// function values: distinct small negative constants (like package-level variables)
		name := "fn_" + mangle(funcKey(v))
		if !t.vc.funSeen[name] {
			t.vc.nFuncs++
			t.vc.declFun(name, fmt.Sprintf("(define-fun %s () Int (- %d))", name, 2048+t.vc.nFuncs))
		}
		x := Term{name, SInt_}
		return x
	case *ssa.Builtin:
		return Term{"0", SInt_}
	}
	// value not yet defined (e.g. defined in an unprocessed block): havoc
	s := t.vc.sortOf(v.Type())
	if s == "TUPLE" {
		return Term{"0", SInt_}
	}
	x := Term{t.fresh("undef", s), s}
	t.vals[v] = x
	t.vc.note("value %s used before definition (havocked)", v.Name())
	return x
}

func (t *Tr) constant(c *ssa.Const) Term {
	ty := c.Type()
	s := t.vc.sortOf(ty)
	if c.Value == nil {
		return t.vc.zeroOf(ty)
	}
	switch s {
	case SBool_:
		if c.Value.String() == "true" {
			return Term{"true", SBool_}
		}
		return Term{"false", SBool_}
	case SInt_:
		if b, ok := ty.Underlying().(*types.Basic); ok && b.Info()&types.IsString != 0 {
			return t.vc.strConst(constantString(c))
		}
		if b, ok := ty.Underlying().(*types.Basic); ok && b.Info()&types.IsInteger != 0 {
			return Term{smtInt(c.Value.ExactString()), SInt_}
		}
		if c.Value.Kind().String() == "Int" {
			return Term{smtInt(c.Value.ExactString()), SInt_}
		}
	case "Real":
		return Term{t.fresh("fconst", "Real"), "Real"}
	}
	return Term{t.fresh("const", s), s}
}

func smtInt(s string) string {
	if strings.HasPrefix(s, "-") {
		return "(- " + s[1:] + ")"
	}
	return s
}

func mkAnd(parts ...string) string {
	var ps []string
	for _, p := range parts {
		if p == "" || p == "true" {
			continue
		}
		if p == "false" {
			return "false"
		}
		ps = append(ps, p)
	}
	switch len(ps) {
	case 0:
		return "true"
	case 1:
		return ps[0]
	}
	return "(and " + strings.Join(ps, " ") + ")"
}

func mkOr(parts ...string) string {
	var ps []string
	for _, p := range parts {
		if p == "" || p == "false" {
			continue
		}
		if p == "true" {
			return "true"
		}
		ps = append(ps, p)
	}
	switch len(ps) {
	case 0:
		return "false"
	case 1:
		return ps[0]
	}
	return "(or " + strings.Join(ps, " ") + ")"
}

func mkNot(p string) string {
	switch p {
	case "true":
		return "false"
	case "false":
		return "true"
	}
	return "(not " + p + ")"
}


// closureMayWrite: some closure of this function (transitively) captures the
// variable and does something with it other than reading it.
func (t *Tr) closureMayWrite(al *ssa.Alloc) bool {
	if t.capWrites == nil {
		t.capWrites = map[*ssa.Alloc]bool{}
		var visit func(fn *ssa.Function, bound map[*ssa.FreeVar]*ssa.Alloc)
		visit = func(fn *ssa.Function, bound map[*ssa.FreeVar]*ssa.Alloc) {
			for _, b := range fn.Blocks {
				for _, in := range b.Instrs {
					// uses of captured cells inside this closure
					for _, op := range in.Operands(nil) {
						fv, ok := (*op).(*ssa.FreeVar)
						if !ok {
							continue
						}
						root, ok := bound[fv]
						if !ok {
							continue
						}
						switch u := in.(type) {
						case *ssa.UnOp:
							if u.Op == token.MUL {
								continue // a read
							}
						case *ssa.DebugRef:
							continue
						case *ssa.MakeClosure:
							continue // handled below (re-capture)
						}
						t.capWrites[root] = true
					}
					mc, ok := in.(*ssa.MakeClosure)
					if !ok {
						continue
					}
					inner, ok := mc.Fn.(*ssa.Function)
					if !ok {
						continue
					}
					nb := map[*ssa.FreeVar]*ssa.Alloc{}
					for i, bv := range mc.Bindings {
						if i >= len(inner.FreeVars) {
							break
						}
						switch x := bv.(type) {
						case *ssa.Alloc:
							nb[inner.FreeVars[i]] = x
						case *ssa.FreeVar:
							if r, ok := bound[x]; ok {
								nb[inner.FreeVars[i]] = r
							}
						}
					}
					visit(inner, nb)
				}
			}
		}
		if t.fn != nil {
			visit(t.fn, map[*ssa.FreeVar]*ssa.Alloc{})
		}
	}
	return t.capWrites[al]
}
