package main

// Instantiation patterns for user-written quantifiers: solvers infer poor
// triggers for heap-indexed terms with arithmetic indices, so they are given
// explicitly: the array reads / uninterpreted applications that mention the
// bound variables.

import (
	"sort"
	"strings"
)

type sx struct {
	atom string
	kids []*sx
}

func parseSx(s string) *sx {
	s = strings.TrimSpace(s)
	if !strings.HasPrefix(s, "(") {
		return &sx{atom: s}
	}
	n := &sx{}
	for _, p := range splitSexp(s) {
		n.kids = append(n.kids, parseSx(p))
	}
	return n
}

func (n *sx) String() string {
	if n.kids == nil {
		return n.atom
	}
	var ps []string
	for _, k := range n.kids {
		ps = append(ps, k.String())
	}
	return "(" + strings.Join(ps, " ") + ")"
}

func (n *sx) vars(set map[string]bool, out map[string]bool) {
	if n.kids == nil {
		if set[n.atom] {
			out[n.atom] = true
		}
		return
	}
	for _, k := range n.kids {
		k.vars(set, out)
	}
}

func (n *sx) head() string {
	if len(n.kids) > 0 && n.kids[0].kids == nil {
		return n.kids[0].atom
	}
	return ""
}

func isTriggerHead(h string) bool {
	switch h {
	case "select", "strat", "strlen", "substr":
		return true
	}
	return strings.HasPrefix(h, "gf_") || strings.HasPrefix(h, "df_") || strings.HasPrefix(h, "uf_") || strings.HasPrefix(h, "impl_")
}

// hasBadOps: patterns must not contain logical connectives or binders.
func (n *sx) okInPattern() bool {
	switch n.head() {
	case "and", "or", "not", "=>", "=", "ite", "forall", "exists", "<", "<=", ">", ">=", "let", "!", "distinct":
		return false
	}
	for _, k := range n.kids {
		if k.kids != nil && !k.okInPattern() {
			return false
		}
	}
	return true
}

func inferPatterns(body string, vars []string) string {
	if len(body) > 20000 {
		return ""
	}
	set := map[string]bool{}
	for _, v := range vars {
		set[v] = true
	}
	root := parseSx(body)
	type cand struct {
		s    string
		vars map[string]bool
	}
	var cands []cand
	seen := map[string]bool{}
	var walk func(n *sx, underQuant bool)
	walk = func(n *sx, underQuant bool) {
		if n.kids == nil {
			return
		}
		h := n.head()
		if h == "forall" || h == "exists" {
			return // nested binder: its terms mention inner variables
		}
		if isTriggerHead(h) && n.okInPattern() {
			vs := map[string]bool{}
			n.vars(set, vs)
			if len(vs) > 0 {
				s := n.String()
				if !seen[s] && len(s) < 600 {
					seen[s] = true
					cands = append(cands, cand{s, vs})
				}
			}
		}
		for _, k := range n.kids {
			walk(k, underQuant)
		}
	}
	walk(root, false)
	if len(cands) == 0 {
		return ""
	}
	sort.SliceStable(cands, func(i, j int) bool { return len(cands[i].s) < len(cands[j].s) })
	// drop candidates that strictly contain a smaller candidate with the same variables
	var kept []cand
	for _, c := range cands {
		dup := false
		for _, k := range kept {
			if len(k.vars) == len(c.vars) && strings.Contains(c.s, k.s) {
				dup = true
				break
			}
		}
		if !dup {
			kept = append(kept, c)
		}
	}
	var pats []string
	for _, c := range kept {
		if len(c.vars) == len(vars) {
			pats = append(pats, ":pattern ("+c.s+")")
			if len(pats) >= 4 {
				break
			}
		}
	}
	if len(pats) == 0 {
		// multi-pattern: greedily cover all variables
		covered := map[string]bool{}
		var parts []string
		for _, c := range kept {
			adds := false
			for v := range c.vars {
				if !covered[v] {
					adds = true
				}
			}
			if adds {
				parts = append(parts, c.s)
				for v := range c.vars {
					covered[v] = true
				}
			}
			if len(covered) == len(vars) {
				break
			}
		}
		if len(covered) != len(vars) {
			return ""
		}
		pats = append(pats, ":pattern ("+strings.Join(parts, " ")+")")
	}
	return rawStringFuns(strings.Join(pats, " "))
}

// rawStringFuns: strlen/strat are defined (macro) functions over strlen_raw /
// strat_raw; patterns must mention the uninterpreted symbols.
func rawStringFuns(p string) string {
	p = strings.ReplaceAll(p, "(strlen ", "(strlen_raw ")
	return strings.ReplaceAll(p, "(strat ", "(strat_raw ")
}

// absolutize rewrites a quantified body so that an array read indexed by
// `REST + v` (v the bound variable) becomes a read at the bound variable
// itself: v is replaced by (v - REST) everywhere, which is the same
// quantifier up to the bijection a = REST + v. The read `(select R v)` is
// then a trigger that matches every index term, however the solver has
// normalised its arithmetic.
func absolutize(body, v string) (string, bool) {
	if len(body) > 20000 {
		return body, false
	}
	root := parseSx(body)
	var rest string
	found := false
	var walk func(n *sx)
	walk = func(n *sx) {
		if found || n.kids == nil {
			return
		}
		h := n.head()
		if h == "forall" || h == "exists" {
			return
		}
		if h == "select" && len(n.kids) == 3 {
			idx := n.kids[2].String()
			if idx != v && containsToken(idx, v) && !containsToken(n.kids[1].String(), v) {
				lt := linParse(idx, 0)
				if lt.atoms[v] == 1 {
					clean := true
					for a := range lt.atoms {
						if a != v && containsToken(a, v) {
							clean = false
						}
					}
					if clean {
						delete(lt.atoms, v)
						rest = linBuild(lt)
						found = true
						return
					}
				}
			}
		}
		for _, k := range n.kids {
			walk(k)
		}
	}
	walk(root)
	if !found {
		return body, false
	}
	sub := substTokens(body, []string{v, "(- " + v + " " + rest + ")"})
	return renormArith(parseSx(sub)).String(), true
}

func containsToken(s, tok string) bool {
	i := 0
	for i < len(s) {
		c := s[i]
		if c == ' ' || c == '(' || c == ')' {
			i++
			continue
		}
		j := i
		for j < len(s) && s[j] != ' ' && s[j] != '(' && s[j] != ')' {
			j++
		}
		if s[i:j] == tok {
			return true
		}
		i = j
	}
	return false
}

// renormArith re-canonicalises every arithmetic subterm.
func renormArith(n *sx) *sx {
	if n.kids == nil {
		return n
	}
	h := n.head()
	if h == "+" || h == "-" || h == "*" {
		s := linNorm(n.String())
		m := parseSx(s)
		// normalise below non-arithmetic atoms (e.g. selects inside the sum)
		if m.kids != nil && (m.head() == "+" || m.head() == "-" || m.head() == "*") {
			for i, k := range m.kids {
				if i > 0 && k.kids != nil && k.head() != "+" && k.head() != "-" && k.head() != "*" {
					m.kids[i] = renormArith(k)
				}
			}
			return m
		}
		return renormArith2(m)
	}
	for i, k := range n.kids {
		n.kids[i] = renormArith(k)
	}
	return n
}

func renormArith2(n *sx) *sx {
	if n.kids == nil {
		return n
	}
	for i, k := range n.kids {
		n.kids[i] = renormArith(k)
	}
	return n
}
