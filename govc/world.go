package main

// World: program-wide registry (packages, SSA, contracts, sorts).

import (
	"fmt"
	"go/token"
	"go/types"
	"os"
	"path/filepath"
	"regexp"
	"sort"
	"strings"

	"golang.org/x/tools/go/packages"
	"golang.org/x/tools/go/ssa"
	"golang.org/x/tools/go/ssa/ssautil"
)

type Sort string

const (
	SInt_  Sort = "Int"
	SBool_ Sort = "Bool"
	SSlc   Sort = "Slice"
	SIfc   Sort = "Iface"
	SSeq   Sort = "(Array Int Int)"
)

type Term struct {
	S    string
	Sort Sort
}

type World struct {
	Prog     *ssa.Program
	Pkgs     []*packages.Package
	SSAPkgs  []*ssa.Package
	ByName   map[string][]*types.Package // package name -> packages
	ByPath   map[string]*types.Package
	CS       *Contracts
	FuncKeys map[string]*ssa.Function
	DupKeys  []string // short keys shared by several first-party functions
	RepoDir  string

	seqType *types.Named
	// package-level variables that are assigned only by package initialisers:
	// their value is a constant of the program run
	roGlobal map[string]bool // key: pkgpath.name
}

var pathPrefix = regexp.MustCompile(`([A-Za-z0-9_.\-]+/)+`)

func shortKey(s string) string { return pathPrefix.ReplaceAllString(s, "") }

func funcKey(fn *ssa.Function) string {
	if fn.Name() == "init" && fn.Parent() == nil && fn.Pkg != nil && strings.HasPrefix(fn.Synthetic, "package initializer") {
		return fn.Pkg.Pkg.Path() + ".init"
	}
	return shortKey(fn.String())
}

func methodKey(m *types.Func) string { return shortKey(m.FullName()) }

func loadWorld(repo string, patterns []string, specDir string) (*World, error) {
	env := []string{}
	for _, e := range os.Environ() {
		if strings.HasPrefix(e, "GOTOOLCHAIN=") || strings.HasPrefix(e, "GOSUMDB=") || strings.HasPrefix(e, "GOFLAGS=") || strings.HasPrefix(e, "GOPROXY=") {
			continue
		}
		env = append(env, e)
	}
	env = append(env, "GOFLAGS=-mod=mod", "GOPROXY=off")
	cfg := &packages.Config{
		Mode:       packages.LoadAllSyntax,
		Dir:        repo,
		BuildFlags: []string{"-tags=verif"},
		Env:        env,
	}
	pkgs, err := packages.Load(cfg, patterns...)
	if err != nil {
		return nil, err
	}
	nerr := 0
	packages.Visit(pkgs, nil, func(p *packages.Package) {
		for _, e := range p.Errors {
			if strings.HasPrefix(p.PkgPath, "github.com/saucelabs/forwarder") {
				fmt.Fprintf(os.Stderr, "load error: %s: %v\n", p.PkgPath, e)
				nerr++
			}
		}
	})
	if nerr > 0 {
		return nil, fmt.Errorf("%d package load errors", nerr)
	}
	prog, spkgs := ssautil.AllPackages(pkgs, ssa.InstantiateGenerics|ssa.GlobalDebug)
	prog.Build()
	w := &World{Prog: prog, Pkgs: pkgs, SSAPkgs: spkgs, ByName: map[string][]*types.Package{}, ByPath: map[string]*types.Package{}, RepoDir: repo, FuncKeys: map[string]*ssa.Function{}}
	packages.Visit(pkgs, nil, func(p *packages.Package) {
		if p.Types != nil {
			w.ByName[p.Types.Name()] = append(w.ByName[p.Types.Name()], p.Types)
			w.ByPath[p.PkgPath] = p.Types
		}
	})
	w.seqType = types.NewNamed(types.NewTypeName(0, nil, "seq", nil), types.NewStruct(nil, nil), nil)
	// contracts
	cs := newContracts()
	if specDir != "" {
		if err := loadSpecDir(cs, specDir); err != nil {
			return nil, err
		}
	}
	packages.Visit(pkgs, nil, func(p *packages.Package) {
		if err != nil || !strings.HasPrefix(p.PkgPath, "github.com/saucelabs/forwarder") {
			return
		}
		for _, f := range p.GoFiles {
			if strings.HasSuffix(f, "_verif.go") && strings.HasPrefix(filepath.Base(f), "zz_contracts") {
				if e := cs.loadFile(f, p.PkgPath, p.Types.Name()); e != nil {
					err = e
				}
			}
		}
	})
	if err != nil {
		return nil, err
	}
	w.CS = cs
	w.computeReadOnlyGlobals()
	// function index
	for fn := range ssautil.AllFunctions(prog) {
		if fn.Synthetic != "" && !strings.Contains(fn.Synthetic, "instance") {
			// keep wrappers out
			if !strings.HasPrefix(fn.Synthetic, "package initializer") {
				continue
			}
		}
		k := funcKey(fn)
		if old, ok := w.FuncKeys[k]; ok && old != fn && w.firstParty(old) && w.firstParty(fn) {
			// two first-party functions with one short key: choose by full name so
			// that the choice does not depend on map iteration order
			w.DupKeys = append(w.DupKeys, k)
			if old.String() < fn.String() {
				continue
			}
			w.FuncKeys[k] = fn
			continue
		}
		if old, ok := w.FuncKeys[k]; ok && old != fn {
			// ambiguous short key: prefer first-party
			if old.Pkg != nil && strings.HasPrefix(old.Pkg.Pkg.Path(), "github.com/saucelabs/forwarder") {
				continue
			}
		}
		w.FuncKeys[k] = fn
	}
	return w, nil
}

func (w *World) firstParty(fn *ssa.Function) bool {
	p := fn.Package()
	if p == nil && fn.Parent() != nil {
		p = fn.Parent().Package()
	}
	return p != nil && strings.HasPrefix(p.Pkg.Path(), "github.com/saucelabs/forwarder")
}

// resolveType maps contract type syntax to a go/types type. from is the
// package of the contract file ("" for spec files).
func (w *World) resolveType(t *SType, from string) (types.Type, error) {
	switch t.Kind {
	case "seq":
		return w.seqType, nil
	case "ptr":
		e, err := w.resolveType(t.Elem, from)
		if err != nil {
			return nil, err
		}
		return types.NewPointer(e), nil
	case "slice":
		e, err := w.resolveType(t.Elem, from)
		if err != nil {
			return nil, err
		}
		return types.NewSlice(e), nil
	case "emptystruct":
		return types.NewStruct(nil, nil), nil
	case "func":
		return types.NewSignatureType(nil, nil, nil, nil, nil, false), nil
	case "chan":
		e, err := w.resolveType(t.Elem, from)
		if err != nil {
			return nil, err
		}
		return types.NewChan(types.SendRecv, e), nil
	case "map":
		k, err := w.resolveType(t.Key, from)
		if err != nil {
			return nil, err
		}
		e, err := w.resolveType(t.Elem, from)
		if err != nil {
			return nil, err
		}
		return types.NewMap(k, e), nil
	case "name":
		if t.Pkg == "" {
			if obj := types.Universe.Lookup(t.Name); obj != nil {
				if tn, ok := obj.(*types.TypeName); ok {
					return tn.Type(), nil
				}
			}
			if from != "" {
				if p := w.ByPath[from]; p != nil {
					if obj := p.Scope().Lookup(t.Name); obj != nil {
						if tn, ok := obj.(*types.TypeName); ok {
							return tn.Type(), nil
						}
					}
				}
			}
			return nil, fmt.Errorf("unknown type %s", t.Name)
		}
		if strings.Contains(t.Pkg, "/") {
			if p := w.ByPath[t.Pkg]; p != nil {
				if obj := p.Scope().Lookup(t.Name); obj != nil {
					if tn, ok := obj.(*types.TypeName); ok {
						return tn.Type(), nil
					}
				}
			}
			return nil, fmt.Errorf("unknown type %s.%s", t.Pkg, t.Name)
		}
		cands := w.ByName[t.Pkg]
		// prefer: first party, then std (no dot in first path element)
		sort.SliceStable(cands, func(i, j int) bool { return pkgRank(cands[i].Path()) < pkgRank(cands[j].Path()) })
		for _, p := range cands {
			if obj := p.Scope().Lookup(t.Name); obj != nil {
				if tn, ok := obj.(*types.TypeName); ok {
					return tn.Type(), nil
				}
			}
		}
		return nil, fmt.Errorf("unknown type %s.%s", t.Pkg, t.Name)
	}
	return nil, fmt.Errorf("bad type syntax %v", t)
}

func pkgRank(path string) int {
	if strings.HasPrefix(path, "github.com/saucelabs/forwarder") {
		return 0
	}
	if !strings.Contains(strings.SplitN(path, "/", 2)[0], ".") {
		return 1
	}
	if strings.Contains(path, "/vendor/") || strings.HasPrefix(path, "vendor/") {
		return 3
	}
	return 2
}

// lookupPkgObject finds a package-level object by short package name.
func (w *World) lookupQualified(pkgName, name, from string) types.Object {
	if pkgName == "" {
		if p := w.ByPath[from]; p != nil {
			return p.Scope().Lookup(name)
		}
		return nil
	}
	cands := w.ByName[pkgName]
	sort.SliceStable(cands, func(i, j int) bool { return pkgRank(cands[i].Path()) < pkgRank(cands[j].Path()) })
	for _, p := range cands {
		if obj := p.Scope().Lookup(name); obj != nil {
			return obj
		}
	}
	return nil
}

func mangle(s string) string {
	var b strings.Builder
	for _, c := range s {
		switch {
		case c >= 'a' && c <= 'z', c >= 'A' && c <= 'Z', c >= '0' && c <= '9', c == '_':
			b.WriteRune(c)
		case c == '*':
			b.WriteString("P")
		case c == '[':
			b.WriteString("L")
		case c == ']':
			b.WriteString("R")
		case c == '.', c == '/':
			b.WriteString("_")
		default:
			b.WriteString(fmt.Sprintf("x%x", int(c)))
		}
	}
	return b.String()
}

func typeKey(t types.Type) string {
	s := shortKey(types.TypeString(t, nil))
	if len(s) > 60 {
		// anonymous struct etc.: hash
		h := uint32(2166136261)
		for i := 0; i < len(s); i++ {
			h = (h ^ uint32(s[i])) * 16777619
		}
		s = fmt.Sprintf("%s_%08x", s[:20], h)
	}
	return mangle(s)
}

func globalKey(pkg *types.Package, name string) string {
	if pkg == nil {
		return name
	}
	return pkg.Path() + "." + name
}

// computeReadOnlyGlobals: a first-party global is read-only if no function
// other than a package initialiser stores to it or takes its address for
// anything but loads and field/element reads.
func (w *World) computeReadOnlyGlobals() {
	w.roGlobal = map[string]bool{}
	written := map[string]bool{}
	for _, p := range w.SSAPkgs {
		if p == nil || !strings.HasPrefix(p.Pkg.Path(), "github.com/saucelabs/forwarder") {
			continue
		}
		for _, m := range p.Members {
			if g, ok := m.(*ssa.Global); ok {
				w.roGlobal[globalKey(g.Pkg.Pkg, g.Name())] = true
			}
		}
	}
	for fn := range ssautil.AllFunctions(w.Prog) {
		if !w.firstParty(fn) || fn.Name() == "init" || strings.HasPrefix(fn.Name(), "init#") {
			continue
		}
		for _, b := range fn.Blocks {
			for _, in := range b.Instrs {
				for _, op := range in.Operands(nil) {
					g, ok := (*op).(*ssa.Global)
					if !ok || g.Pkg == nil {
						continue
					}
					safe := false
					switch u := in.(type) {
					case *ssa.UnOp:
						safe = u.Op == token.MUL
					case *ssa.DebugRef:
						safe = true
					}
					if !safe {
						written[globalKey(g.Pkg.Pkg, g.Name())] = true
					}
				}
			}
		}
	}
	for k := range written {
		delete(w.roGlobal, k)
	}
}
