package main

// Replay adapter for the reader-driven PROXY-protocol parsers: the stream
// bytes of the counter-model are fed to the real function through a
// whole-buffer reader and a one-byte-at-a-time reader, and the contract's
// postconditions are re-evaluated in Go on the real result.

import (
	"fmt"
	"os"
	"os/exec"
	"path/filepath"
	"regexp"
	"strconv"
	"strings"
)

var rvRe = regexp.MustCompile(`\(rv_(\d+) (\(- \d+\)|\d+)\)`)

// modelInts evaluates integer terms in the model of a sat script.
func modelInts(file string, terms []string, ms int) ([]int, bool) {
	src, err := os.ReadFile(file)
	if err != nil {
		return nil, false
	}
	var b strings.Builder
	b.Write(src)
	var names []string
	for i := range terms {
		names = append(names, fmt.Sprintf("rv_%d", i))
	}
	// terms are evaluated through get-value directly (define-fun after check-sat would reset the model)
	b.WriteString("(get-value (")
	for _, t := range terms {
		b.WriteString(t)
		b.WriteString("\n")
	}
	b.WriteString("))\n")
	f := file + ".mv.smt2"
	os.WriteFile(f, []byte(b.String()), 0o644)
	out, _ := runSolverNamed("z3-new", f, ms)
	rest, ok := afterSat(out)
	if !ok {
		return nil, false
	}
	vals := parseValueList(rest, len(terms))
	return vals, vals != nil
}

// afterSat: the solver output that follows the first answer line, if that answer is sat
// (warnings before it are skipped).
func afterSat(out string) (string, bool) {
	rest := out
	for rest != "" {
		lines := strings.SplitN(rest, "\n", 2)
		if w := firstWord(lines[0]); w != "" {
			if w == "sat" && len(lines) == 2 {
				return lines[1], true
			}
			return "", false
		}
		if len(lines) < 2 {
			break
		}
		rest = lines[1]
	}
	return "", false
}

func runSolverNamed(name, file string, ms int) (string, float64) {
	for _, sp := range solvers {
		if sp.name == name {
			return runSolver(ctxBackground(), sp, file, ms)
		}
	}
	return "", 0
}

// parseValueList parses z3's ((term value) (term value) ...) output, taking
// the last integer of each top-level pair.
func parseValueList(s string, n int) []int {
	var vals []int
	depth := 0
	start := -1
	for i := 0; i < len(s); i++ {
		switch s[i] {
		case '(':
			depth++
			if depth == 2 {
				start = i
			}
		case ')':
			if depth == 2 && start >= 0 {
				pair := s[start : i+1]
				v, ok := lastInt(pair)
				if !ok {
					return nil
				}
				vals = append(vals, v)
				start = -1
			}
			depth--
		}
	}
	if len(vals) != n {
		return nil
	}
	return vals
}

var lastIntRe = regexp.MustCompile(`(\(- (\d+)\)|(\d+))\)$`)

func lastInt(pair string) (int, bool) {
	m := lastIntRe.FindStringSubmatch(strings.TrimSpace(pair))
	if m == nil {
		return 0, false
	}
	if m[2] != "" {
		v, _ := strconv.Atoi(m[2])
		return -v, true
	}
	v, _ := strconv.Atoi(m[3])
	return v, true
}

func byteList(bs []int) string {
	var parts []string
	for _, b := range bs {
		parts = append(parts, strconv.Itoa(((b%256)+256)%256))
	}
	return strings.Join(parts, ", ")
}

const c08Template = `package proxyproto

import (
	"bytes"
	"io"
	"testing"
	"testing/iotest"
)

type govcCountR struct {
	r io.Reader
	n int
}

func (c *govcCountR) Read(p []byte) (int, error) { n, err := c.r.Read(p); c.n += n; return n, err }

func govcIsV2(b []byte) bool { return len(b) >= 12 && bytes.Equal(b[:12], []byte("\r\n\r\n\x00\r\nQUIT\n")) }

func TestGovcReplay(t *testing.T) {
	pre := []byte{%s}
	stream := []byte{%s}
	entry := %q
	wellFormedV1 := %v // the input was built from a grammar of well-formed v1 lines
	for _, one := range []bool{false, true} {
		var rd io.Reader = bytes.NewReader(stream)
		if one {
			rd = iotest.OneByteReader(rd)
		}
		cr := &govcCountR{r: rd}
		var h *Header
		var err error
		func() {
			defer func() {
				if p := recover(); p != nil {
					t.Errorf("PANIC (one-byte=%%v): %%v", one, p)
				}
			}()
			var buf [232]byte
			copy(buf[:], pre)
			switch entry {
			case "ReadHeader":
				h, err = ReadHeader(cr)
			case "ReadV2Header":
				h, err = ReadV2Header(cr)
			case "readV2Header":
				h, err = readV2Header(buf[:], cr)
			case "readV1Header":
				h, err = readV1Header(buf[:], cr)
			}
		}()
		all := append(append([]byte{}, pre...), stream...)
		consumed := len(pre) + cr.n
		if wellFormedV1 && err != nil {
			t.Errorf("well-formed v1 header rejected: %%v (one-byte=%%v) input=%%q", err, one, all[:consumed])
		}
		if err == nil {
			if h == nil {
				t.Errorf("nil header with nil error (one-byte=%%v)", one)
				continue
			}
			if !h.IsLocal && (h.Source == nil || h.Destination == nil) {
				t.Errorf("accepted non-local header without addresses: Source=%%v Destination=%%v (one-byte=%%v) input=%%q", h.Source, h.Destination, one, all[:consumed])
			}
		}
		if govcIsV2(all) && len(all) >= 16 {
			want := 16 + 256*int(all[14]) + int(all[15])
			if consumed > want {
				t.Errorf("v2: consumed %%d bytes, header is %%d bytes (payload eaten) (one-byte=%%v)", consumed, want, one)
			}
			if err == nil && consumed != want {
				t.Errorf("v2: consumed %%d bytes, header is %%d bytes (one-byte=%%v)", consumed, want, one)
			}
		} else if err == nil && bytes.HasPrefix(all, []byte("PROXY ")) {
			p := bytes.Index(all, []byte("\r\n"))
			min := 13
			if bytes.HasPrefix(all[6:], []byte("TCP4")) {
				min = 30
			}
			if bytes.HasPrefix(all[6:], []byte("TCP6")) {
				min = 20
			}
			if p >= min && p < 106 && consumed != p+2 {
				t.Errorf("v1: consumed %%d bytes, header line ends at %%d (one-byte=%%v) input=%%q", consumed, p+2, one, all[:consumed])
			}
		}
	}
}
`

func c08Adapter(entry string, preLen int) replayAdapter {
	return func(w *World, vc *VC, r *Result, dir string) (bool, string) {
		rt, ok := vc.Params["r"]
		if !ok {
			return false, "no reader parameter in the VC"
		}
		var terms []string
		if preLen > 0 {
			bt, ok := vc.Params["buf"]
			if !ok {
				return false, "no buf parameter in the VC"
			}
			for k := 0; k < preLen; k++ {
				terms = append(terms, fmt.Sprintf("(select (select E_byte_g0 (s-base %s)) (+ (s-off %s) %d))", bt.S, bt.S, k))
			}
		}
		const N = 320
		for k := 0; k < N; k++ {
			terms = append(terms, fmt.Sprintf("(select (gf_stream %s) (+ (select G_pos_g0 %s) %d))", rt.S, rt.S, k))
		}
		vals, ok := modelInts(r.Formula, terms, 20000)
		if !ok {
			return false, "could not evaluate the stream in the counter-model"
		}
		pre, stream := vals[:preLen], vals[preLen:]
		all := append(append([]int{}, pre...), stream...)
		// v2: make the stream long enough for the declared length
		if len(all) >= 16 {
			want := 16 + 256*(all[14]&255) + (all[15] & 255)
			for len(all) < want+8 && want <= 16+2048 {
				all = append(all, 0)
				stream = append(stream, 0)
			}
		}
		src := fmt.Sprintf(c08Template, byteList(pre), byteList(stream), entry, false)
		failed, tr := runOverlayTest(w, "proxyproto", "zz_govc_replay_test.go", src, "TestGovcReplay", dir)
		if failed {
			return true, tr
		}
		// The contracts abstract address/port parsing (net.ParseIP, strconv.Atoi are
		// uninterpreted), so the model's address text is arbitrary. Concretise it:
		// keep the model's family, line length p and everything from the CRLF on,
		// and substitute a canonical well-formed line of the same length.
		if rep, ok := repairV1(all); ok {
			src2 := fmt.Sprintf(c08Template, byteList(rep[:preLen]), byteList(rep[preLen:]), entry, true)
			failed2, tr2 := runOverlayTest(w, "proxyproto", "zz_govc_replay_test.go", src2, "TestGovcReplay", dir)
			return failed2, tr + "\n\n=== replay with the address text concretised to a well-formed line of the same length ===\n" + tr2
		}
		return false, tr
	}
}

// runOverlayTest injects an in-package test through -overlay (nothing is
// written to the repository) and reports whether it FAILED.
func runOverlayTest(w *World, pkgDir, fileName, src, run, dir string) (bool, string) {
	tf := filepath.Join(dir, fileName)
	if err := os.WriteFile(tf, []byte(src), 0o644); err != nil {
		return false, err.Error()
	}
	ov := filepath.Join(dir, "overlay.json")
	target := filepath.Join(w.RepoDir, pkgDir, fileName)
	os.WriteFile(ov, []byte(fmt.Sprintf(`{"Replace": {%q: %q}}`, target, tf)), 0o644)
	cmd := exec.Command("go", "test", "-tags", "verif", "-overlay", ov, "-vet=off", "-count=1", "-timeout", "60s", "-run", "^"+run+"$", "./"+pkgDir)
	cmd.Dir = w.RepoDir
	cmd.Env = cleanGoEnv()
	gocache := filepath.Join(dir, "gocache")
	_ = gocache
	out, err := cmd.CombinedOutput()
	transcript := fmt.Sprintf("$ go test -tags verif -overlay overlay.json -vet=off -run %s ./%s\n%s", run, pkgDir, truncate(string(out), 6000))
	failed := err != nil && strings.Contains(string(out), "--- FAIL")
	transcript += fmt.Sprintf("\n--- generated test ---\n%s", truncate(src, 6000))
	return failed, transcript
}

func cleanGoEnv() []string {
	env := []string{}
	for _, e := range os.Environ() {
		if strings.HasPrefix(e, "GOTOOLCHAIN=") || strings.HasPrefix(e, "GOSUMDB=") || strings.HasPrefix(e, "GOFLAGS=") || strings.HasPrefix(e, "GOPROXY=") {
			continue
		}
		env = append(env, e)
	}
	return append(env, "GOFLAGS=-mod=mod", "GOPROXY=off")
}

func init() {
	replayAdapters["proxyproto.ReadHeader"] = c08Adapter("ReadHeader", 0)
	replayAdapters["proxyproto.ReadV2Header"] = c08Adapter("ReadV2Header", 0)
	replayAdapters["proxyproto.readV2Header"] = c08Adapter("readV2Header", 13)
	replayAdapters["proxyproto.readV1Header"] = c08Adapter("readV1Header", 13)
}

// repairV1 rebuilds a well-formed "PROXY TCPx a b p q" line with the same
// family and the same CRLF position as the model's bytes.
func repairV1(all []int) ([]int, bool) {
	if len(all) < 24 {
		return nil, false
	}
	fam := ""
	if all[6] == 'T' && all[7] == 'C' && all[8] == 'P' && (all[9] == '4' || all[9] == '6') {
		fam = string(rune(all[9]))
	} else {
		return nil, false
	}
	p := -1
	for i := 0; i+1 < len(all) && i < 108; i++ {
		if all[i] == 13 && all[i+1] == 10 {
			p = i
			break
		}
	}
	if p < 0 {
		return nil, false
	}
	line := wfV1Line(fam, p)
	if line == "" {
		return nil, false
	}
	out := make([]int, 0, len(all))
	for i := 0; i < len(line); i++ {
		out = append(out, int(line[i]))
	}
	out = append(out, all[p:]...)
	return out, true
}

// wfV1Line returns a well-formed v1 line (without CRLF) of exactly n bytes.
func wfV1Line(fam string, n int) string {
	var addrs []string
	if fam == "4" {
		addrs = []string{"1.1.1.1", "10.1.1.1", "10.10.1.1", "10.10.10.1", "10.10.10.10", "100.10.10.10", "100.100.10.10", "100.100.100.10", "100.100.100.100"}
	} else {
		addrs = []string{"::", "::1", "::12", "::123", "::1234", "::1:234", "::1:2345", "::12:2345", "::123:2345", "::1234:2345", "::1:1234:2345", "::12:1234:2345", "::123:1234:2345", "::1234:1234:2345",
			"::1:1234:1234:2345", "::12:1234:1234:2345", "::123:1234:1234:2345", "::1234:1234:1234:2345", "::1:1234:1234:1234:2345", "::12:1234:1234:1234:2345", "::123:1234:1234:1234:2345", "::1234:1234:1234:1234:2345",
			"::1:1234:1234:1234:1234:2345", "::12:1234:1234:1234:1234:2345", "::123:1234:1234:1234:1234:2345", "::1234:1234:1234:1234:1234:2345", "::1:1234:1234:1234:1234:1234:2345"}
	}
	ports := []string{"1", "12", "123", "1234", "12345"}
	for _, a := range addrs {
		for _, b := range addrs {
			for _, p := range ports {
				for _, q := range ports {
					l := "PROXY TCP" + fam + " " + a + " " + b + " " + p + " " + q
					if len(l) == n {
						return l
					}
				}
			}
		}
	}
	return ""
}
