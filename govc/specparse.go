package main

// Parser for the contract expression language (Go expression syntax plus
// ==>, <==>, forall/exists, old(), `x in m`, `x is T`).

import (
	"fmt"
	"math/big"
	"strconv"
	"strings"
	"unicode"
)

type SExpr interface{}

type (
	SIdent  struct{ Name string }
	SInt    struct{ V string }
	SString struct{ V string }
	SBool   struct{ V bool }
	SUnary  struct {
		Op string
		X  SExpr
	}
	SBinary struct {
		Op   string
		X, Y SExpr
	}
	SSel struct {
		X   SExpr
		Sel string
	}
	SIndex struct{ X, I SExpr }
	SSlice struct{ X, Lo, Hi SExpr }
	SCall  struct {
		Fun  SExpr
		Args []SExpr
	}
	SQuant struct {
		Forall   bool
		Vars     []SParam
		Body     SExpr
		Triggers [][]SExpr // optional explicit instantiation patterns: forall x T {f(x), g(x)} {h(x)} :: body (alternatives of multi-patterns)
	}
	SIs struct {
		X  SExpr
		Ty *SType
	}
	SAssert struct { // x.(T)
		X  SExpr
		Ty *SType
	}
	SDeref struct{ X SExpr }
	SIte   struct{ C, A, B SExpr }
)

type SParam struct {
	Name string
	Ty   *SType
}

// SType is the syntax of a type in a contract.
type SType struct {
	Kind string // "name", "ptr", "slice", "map", "seq", "array"
	Pkg  string
	Name string
	Elem *SType
	Key  *SType
}

func (t *SType) String() string {
	switch t.Kind {
	case "ptr":
		return "*" + t.Elem.String()
	case "slice":
		return "[]" + t.Elem.String()
	case "map":
		return "map[" + t.Key.String() + "]" + t.Elem.String()
	case "name":
		if t.Pkg != "" {
			return t.Pkg + "." + t.Name
		}
		return t.Name
	}
	return t.Kind
}

type tok struct {
	k string // "id","int","str","op","eof","char"
	s string
}

type lexer struct {
	src  string
	toks []tok
	p    int
}

func lex(src string) ([]tok, error) {
	var toks []tok
	i := 0
	for i < len(src) {
		c := src[i]
		switch {
		case c == ' ' || c == '\t' || c == '\n' || c == '\r':
			i++
		case unicode.IsLetter(rune(c)) || c == '_' || c == '$':
			j := i
			for j < len(src) && (unicode.IsLetter(rune(src[j])) || unicode.IsDigit(rune(src[j])) || src[j] == '_' || src[j] == '$') {
				j++
			}
			toks = append(toks, tok{"id", src[i:j]})
			i = j
		case c >= '0' && c <= '9':
			j := i
			for j < len(src) && (unicode.IsDigit(rune(src[j])) || unicode.IsLetter(rune(src[j])) || src[j] == '_') {
				j++
			}
			bv, ok := new(big.Int).SetString(strings.ReplaceAll(src[i:j], "_", ""), 0)
			if !ok {
				return nil, fmt.Errorf("bad int %q", src[i:j])
			}
			toks = append(toks, tok{"int", bv.String()})
			i = j
		case c == '"':
			j := i + 1
			for j < len(src) && src[j] != '"' {
				if src[j] == '\\' {
					j++
				}
				j++
			}
			if j >= len(src) {
				return nil, fmt.Errorf("unterminated string")
			}
			s, err := strconv.Unquote(src[i : j+1])
			if err != nil {
				return nil, fmt.Errorf("bad string %s", src[i:j+1])
			}
			toks = append(toks, tok{"str", s})
			i = j + 1
		case c == '\'':
			j := i + 1
			for j < len(src) && src[j] != '\'' {
				if src[j] == '\\' {
					j++
				}
				j++
			}
			r, _, _, err := strconv.UnquoteChar(src[i+1:j], '\'')
			if err != nil {
				return nil, fmt.Errorf("bad char %s", src[i:j+1])
			}
			toks = append(toks, tok{"int", strconv.Itoa(int(r))})
			i = j + 1
		default:
			ops := []string{"<==>", "==>", "::", "&&", "||", "==", "!=", "<=", ">=", "<<", ">>", "&^", "+", "-", "*", "/", "%", "<", ">", "!", "(", ")", "[", "]", ",", ".", ":", "&", "|", "^", "?", "{", "}"}
			found := false
			for _, o := range ops {
				if strings.HasPrefix(src[i:], o) {
					toks = append(toks, tok{"op", o})
					i += len(o)
					found = true
					break
				}
			}
			if !found {
				return nil, fmt.Errorf("unexpected character %q in %q", c, src)
			}
		}
	}
	toks = append(toks, tok{"eof", ""})
	return toks, nil
}

type sparser struct {
	toks []tok
	p    int
}

func parseSpecExpr(src string) (e SExpr, err error) {
	toks, err := lex(src)
	if err != nil {
		return nil, err
	}
	ps := &sparser{toks: toks}
	defer func() {
		if r := recover(); r != nil {
			if pe, ok := r.(parseErr); ok {
				err = fmt.Errorf("%s in %q", string(pe), src)
				return
			}
			panic(r)
		}
	}()
	e = ps.expr(0)
	if ps.peek().k != "eof" {
		ps.fail("trailing tokens at %q", ps.peek().s)
	}
	return e, nil
}

type parseErr string

func (ps *sparser) fail(f string, a ...interface{}) { panic(parseErr(fmt.Sprintf(f, a...))) }
func (ps *sparser) peek() tok                        { return ps.toks[ps.p] }
func (ps *sparser) next() tok                        { t := ps.toks[ps.p]; ps.p++; return t }
func (ps *sparser) isOp(s string) bool               { t := ps.peek(); return t.k == "op" && t.s == s }
func (ps *sparser) isID(s string) bool               { t := ps.peek(); return t.k == "id" && t.s == s }
func (ps *sparser) expectOp(s string) {
	if !ps.isOp(s) {
		ps.fail("expected %q, got %q", s, ps.peek().s)
	}
	ps.p++
}

// precedence: 0 <==>, 1 ==>, 2 ||, 3 &&, 4 compare, 5 + - | ^, 6 * / % << >> & &^
func binPrec(t tok) (int, bool) {
	if t.k == "id" && (t.s == "in" || t.s == "is") {
		return 4, true
	}
	if t.k != "op" {
		return 0, false
	}
	switch t.s {
	case "<==>":
		return 0, true
	case "==>":
		return 1, true
	case "||":
		return 2, true
	case "&&":
		return 3, true
	case "==", "!=", "<", "<=", ">", ">=":
		return 4, true
	case "+", "-", "|", "^":
		return 5, true
	case "*", "/", "%", "<<", ">>", "&", "&^":
		return 6, true
	}
	return 0, false
}

func (ps *sparser) expr(minPrec int) SExpr {
	if ps.isID("forall") || ps.isID("exists") {
		return ps.quant()
	}
	lhs := ps.unary()
	for {
		t := ps.peek()
		prec, ok := binPrec(t)
		if !ok || prec < minPrec {
			return lhs
		}
		ps.next()
		if t.k == "id" && t.s == "is" {
			ty := ps.typ()
			lhs = &SIs{lhs, ty}
			continue
		}
		var rhs SExpr
		if t.s == "==>" {
			rhs = ps.expr(prec) // right assoc
		} else {
			rhs = ps.expr(prec + 1)
		}
		lhs = &SBinary{t.s, lhs, rhs}
	}
}

func (ps *sparser) quant() SExpr {
	t := ps.next()
	var vars []SParam
	var triggers [][]SExpr
	for {
		n := ps.next()
		if n.k != "id" {
			ps.fail("quantifier variable expected")
		}
		var names []string
		names = append(names, n.s)
		for ps.isOp(",") {
			ps.next()
			m := ps.next()
			names = append(names, m.s)
		}
		ty := ps.typ()
		for _, nm := range names {
			vars = append(vars, SParam{nm, ty})
		}
		for ps.isOp("{") {
			ps.next()
			var grp []SExpr
			for !ps.isOp("}") {
				grp = append(grp, ps.expr(2))
				if ps.isOp(",") {
					ps.next()
				}
			}
			ps.next()
			triggers = append(triggers, grp)
		}
		if ps.isOp("::") {
			ps.next()
			break
		}
		if ps.isOp(",") {
			ps.next()
			continue
		}
		ps.fail("expected :: in quantifier")
	}
	body := ps.expr(0)
	return &SQuant{t.s == "forall", vars, body, triggers}
}

func (ps *sparser) typ() *SType {
	if ps.isOp("*") {
		ps.next()
		return &SType{Kind: "ptr", Elem: ps.typ()}
	}
	if ps.isOp("[") {
		ps.next()
		ps.expectOp("]")
		return &SType{Kind: "slice", Elem: ps.typ()}
	}
	t := ps.next()
	if t.k != "id" {
		ps.fail("type expected, got %q", t.s)
	}
	if t.s == "map" {
		ps.expectOp("[")
		k := ps.typ()
		ps.expectOp("]")
		return &SType{Kind: "map", Key: k, Elem: ps.typ()}
	}
	if t.s == "struct" && ps.isOp("{") {
		ps.next()
		ps.expectOp("}")
		return &SType{Kind: "emptystruct"}
	}
	if t.s == "seq" {
		return &SType{Kind: "seq"}
	}
	if t.s == "chan" {
		return &SType{Kind: "chan", Elem: ps.typ()}
	}
	if t.s == "func" {
		// only the identity of function values matters in contracts: func() / func() T
		ps.expectOp("(")
		ps.expectOp(")")
		return &SType{Kind: "func"}
	}
	st := &SType{Kind: "name", Name: t.s}
	// package path: a/b/c.T
	for ps.isOp("/") {
		ps.next()
		n := ps.next()
		st.Name += "/" + n.s
	}
	if ps.isOp(".") {
		ps.next()
		n := ps.next()
		st.Pkg = st.Name
		st.Name = n.s
	}
	return st
}

func (ps *sparser) unary() SExpr {
	t := ps.peek()
	if t.k == "op" {
		switch t.s {
		case "!", "-":
			ps.next()
			return &SUnary{t.s, ps.unary()}
		case "*":
			ps.next()
			return &SDeref{ps.unary()}
		}
	}
	return ps.postfix(ps.primary())
}

func (ps *sparser) primary() SExpr {
	t := ps.next()
	switch t.k {
	case "int":
		return &SInt{t.s}
	case "str":
		return &SString{t.s}
	case "id":
		switch t.s {
		case "true":
			return &SBool{true}
		case "false":
			return &SBool{false}
		case "ite":
			ps.expectOp("(")
			c := ps.expr(0)
			ps.expectOp(",")
			a := ps.expr(0)
			ps.expectOp(",")
			b := ps.expr(0)
			ps.expectOp(")")
			return &SIte{c, a, b}
		}
		return &SIdent{t.s}
	case "op":
		if t.s == "(" {
			e := ps.expr(0)
			ps.expectOp(")")
			return e
		}
	}
	ps.fail("unexpected token %q", t.s)
	return nil
}

func (ps *sparser) postfix(e SExpr) SExpr {
	for {
		switch {
		case ps.isOp("."):
			ps.next()
			if ps.isOp("(") { // type assertion x.(T)
				ps.next()
				ty := ps.typ()
				ps.expectOp(")")
				e = &SAssert{e, ty}
				continue
			}
			n := ps.next()
			if n.k != "id" {
				ps.fail("selector expected")
			}
			e = &SSel{e, n.s}
		case ps.isOp("["):
			ps.next()
			var lo, hi SExpr
			if !ps.isOp(":") {
				lo = ps.expr(0)
			}
			if ps.isOp(":") {
				ps.next()
				if !ps.isOp("]") {
					hi = ps.expr(0)
				}
				ps.expectOp("]")
				e = &SSlice{e, lo, hi}
			} else {
				ps.expectOp("]")
				e = &SIndex{e, lo}
			}
		case ps.isOp("("):
			ps.next()
			var args []SExpr
			for !ps.isOp(")") {
				args = append(args, ps.expr(0))
				if ps.isOp(",") {
					ps.next()
				}
			}
			ps.expectOp(")")
			e = &SCall{e, args}
		default:
			return e
		}
	}
}

// parseTypeString parses a standalone type.
func parseTypeString(src string) (t *SType, err error) {
	toks, err := lex(src)
	if err != nil {
		return nil, err
	}
	ps := &sparser{toks: toks}
	defer func() {
		if r := recover(); r != nil {
			if pe, ok := r.(parseErr); ok {
				err = fmt.Errorf("%s in type %q", string(pe), src)
				return
			}
			panic(r)
		}
	}()
	t = ps.typ()
	if ps.peek().k != "eof" {
		ps.fail("trailing tokens")
	}
	return t, nil
}
