#!/usr/bin/env python3
# Regenerates MANIFEST.json from tools/manifest_src.json-like data kept here.
import json, subprocess
props = {json.loads(l)["id"]: json.loads(l) for l in open("/verif/properties.jsonl")}
claims = json.load(open("/verif/claims.json"))
base = json.load(open("/root/.vp/BASELINE.json"))
hooks = subprocess.run(["git", "-C", "/repo", "log", "--format=%H %s"], capture_output=True, text=True).stdout.strip().split("\n")
hook_commits = [l.split()[0] for l in hooks if l.split(" ", 1)[1].startswith("verif:")]
m = {
    "version": 1,
    "setup_cmd": "cd /verif/govc && GOFLAGS=-mod=mod GOPROXY=off GOSUMDB=off GOTOOLCHAIN=local go build -o ../bin/govc .",
    "hooks": {
        "guard": "verif",
        "enable": "-tags verif (comment-only contract files zz_contracts_verif.go; loaded by govc, never linked into the product)",
        "baseline_off_cmd": base["cmd"],
        "source_commits": hook_commits,
        "add_only": True,
    },
    "engines": [{
        "name": "govc",
        "path": "/verif/govc",
        "serves_properties": sorted(claims["claimed"].keys()),
        "kind_free_text": "contract-based deductive verifier for Go: weakest-precondition VC generation over go/ssa of the real code (contracts in build-tagged comment files), obligations discharged by z3 5.1.0 / z3 4.8.12 / cvc5 1.0.3, counter-models replayed on the real code with go test -overlay",
    }],
    "checks": [],
    "notes": claims.get("notes", ""),
    "not_applicable": [],
}
for pid in sorted(props):
    if pid in claims["claimed"]:
        c = claims["claimed"][pid]
        m["checks"].append({
            "property_id": pid,
            "quick_cmd": f"bin/govc check -property {pid} -tier quick",
            "thorough_cmd": f"bin/govc check -property {pid} -tier thorough",
            "evidence_file": f"/verif/evidence/{pid}.json",
            "replay_cmd_template": "cat {path}",
            "engine": "govc",
            "level_claimed": {"category": "proof", "text": c["text"], "design_ref": c.get("design_ref", "DESIGN.md section 6")},
            "level_note": c["note"],
            "technique": "contract-based deductive verification (WP over go/ssa, SMT)",
        })
    else:
        m["not_applicable"].append({"property_id": pid, "reason": claims["not_applicable"].get(pid, "not yet built (engine under construction); see DESIGN.md section 6")})
json.dump(m, open("/verif/MANIFEST.json", "w"), indent=1)
print(len(m["checks"]), "checks,", len(m["not_applicable"]), "not applicable")
