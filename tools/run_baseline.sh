#!/bin/bash
# Runs the repository's pinned test suite (guard off) and compares with the
# stable_pass list of /root/.vp/BASELINE.json. Prints the stable tests that no
# longer pass. usage: tools/run_baseline.sh [repo-dir]
REPO=${1:-/repo}
OUT=$(mktemp /var/tmp/baseline-XXXX.json)
cd "$REPO" && . /w/out/goenv.sh && MF=$(gomodflag) && GOFLAGS=-mod=mod GOPROXY=off go test $MF -json -vet=off -count=1 -timeout 25m ./... > "$OUT" 2>/dev/null
python3 - "$OUT" <<'PY'
import json,sys
stable=set(json.load(open('/root/.vp/BASELINE.json'))['stable_pass'])
passed=set()
for l in open(sys.argv[1]):
    try: e=json.loads(l)
    except: continue
    if e.get('Action')=='pass' and e.get('Test'):
        passed.add(e['Package']+'::'+e['Test'])
missing=sorted(stable-passed)
print(f"stable tests: {len(stable)}, passing now: {len(stable&passed)}, missing: {len(missing)}")
for m in missing[:50]: print("  NOT PASSING:", m)
sys.exit(1 if missing else 0)
PY
rc=$?
rm -f "$OUT"
exit $rc
