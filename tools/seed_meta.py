#!/usr/bin/env python3
# writes seeded/<id>/meta.json from seeded/seeds.json (descriptions) and confirm.log (what the check said)
import json,os
seeds=json.load(open('/verif/seeded/seeds.json'))
for id,s in seeds.items():
    d='/verif/seeded/'+id
    log=open(d+'/confirm.log').read()
    viol=[l for l in log.splitlines() if l.startswith('VIOLATION')]
    m={'id':id,'property':s['property'],'change':s['change'],'needs_to_manifest':s['needs'],
       'produced_by':'fresh sub-agent given only the property text and a scratch git worktree of /repo (no access to /verif)',
       'confirmed_by':'tools/seed_confirm.sh: scratch worktree of /repo HEAD; patch applies and builds; existing tests of the touched packages pass; demo_test.go.txt fails with the patch and passes without it (see confirm.log)',
       'check_run':'bin/govc check -property %s -repo <scratch worktree of /repo HEAD with patch applied>'%s['property'],
       'caught':bool(viol),'failed_obligations':s.get('obligations',''),'violation_lines':viol,'remark':s.get('remark','')}
    json.dump(m,open(d+'/meta.json','w'),indent=1)
    print(id,'caught' if viol else 'MISSED')
