#!/bin/bash
# usage: seed_store.sh <id e.g. C16-1> <prop> <seeddir> <suffix ""|2> <demo target> "<pkgs>" [run]
set -u
ID=$1; PROP=$2; SD=$3; SUF=$4; TARGET=$5; PKGS=$6; RUN=${7:-TestSeed}
D=/verif/seeded/$ID; mkdir -p $D
cp $SD/patch$SUF.diff $D/patch.diff
cp $SD/demo${SUF}_test.go.txt $D/demo_test.go.txt
cp $SD/notes$SUF.md $D/notes.md 2>/dev/null
/verif/tools/seed_confirm.sh $PROP $D/patch.diff $D/demo_test.go.txt $TARGET "$PKGS" "$RUN" > $D/confirm.log 2>&1
sed -i 's#/var/tmp/seedout-[0-9]*/##' $D/confirm.log
tail -8 $D/confirm.log
