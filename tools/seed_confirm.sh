#!/bin/bash
# Confirms a seeded change in a scratch worktree of /repo (outside /repo and /verif):
#   - applies, builds, existing tests of the given packages pass
#   - the demonstration test FAILS with the change and PASSES without it
# then runs the property's check against /repo with the change applied and undoes it.
# usage: seed_confirm.sh <prop> <patch.diff> <demo_test.go.txt> <demo target path rel. to repo> "<test pkgs>" [run-regex]
set -u
PROP=$1; PATCH=$(readlink -f "$2"); DEMO=$(readlink -f "$3"); TARGET=$4; PKGS=$5; RUN=${6:-.}
WT=/var/tmp/seedwt-$$
git -C /repo worktree add -q "$WT" HEAD || exit 2
trap 'git -C /repo worktree remove --force "$WT" >/dev/null 2>&1; rm -rf "$WT"' EXIT
cd "$WT"
export GOFLAGS=-mod=mod GOPROXY=off
if ! git apply --exclude='*zz_contracts_verif.go' "$PATCH"; then echo "CONFIRM: patch does not apply"; exit 2; fi
if ! go build ./... ; then echo "CONFIRM: does not build"; exit 2; fi
echo "== existing tests with the change: $PKGS"
go test -count=1 $PKGS 2>&1 | grep -E "^(ok|FAIL|---|panic)" | grep -v "TestIntegrationConnect\b\|TestParseFilePath" | head -20
cp "$DEMO" "$TARGET"
echo "== demo with the change (must FAIL)"
go test -count=1 -run "$RUN" "./$(dirname "$TARGET")" 2>&1 | grep -E "^(ok|FAIL|--- FAIL|panic)" | head -5
git apply -R --exclude='*zz_contracts_verif.go' "$PATCH"
echo "== demo without the change (must PASS)"
go test -count=1 -run "$RUN" "./$(dirname "$TARGET")" 2>&1 | grep -E "^(ok|FAIL|--- FAIL|panic)" | head -5
rm -f "$TARGET"
git apply --exclude='*zz_contracts_verif.go' "$PATCH"
cd /verif
echo "== check $PROP against a worktree of /repo HEAD with the change applied"
GOVC_OUT_DIR=/var/tmp/seedout-$$ bin/govc check -repo "$WT" -property "$PROP" 2>&1 | tail -12
echo "exit=${PIPESTATUS[0]}"
rm -rf /var/tmp/seedout-$$
