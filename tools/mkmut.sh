#!/bin/bash
# usage: mkmut.sh <out.patch> <file rel. to repo> <python-edit-script (edits file given as argv[1])>
set -e
cd /
rm -rf /var/tmp/mk; mkdir -p /var/tmp/mk; rsync -a --exclude .git /repo/ /var/tmp/mk/
cd /var/tmp/mk
python3 "$3" "$2"
diff -u /repo/$2 /var/tmp/mk/$2 | sed "s#^--- /repo/#--- a/#; s#^+++ /var/tmp/mk/#+++ b/#" > "$1" || true
GOFLAGS=-mod=mod GOPROXY=off go build ./... && echo built
